// C16 One call consumes one document from a stream.
#include "../aj/extract.hpp"
#include "../aj/readers.hpp"
#include "../common/driver_main.hpp"
#include "../common/gen_input.hpp"
#include "../common/gen_value.hpp"
#include "../common/refjson.hpp"
#include "../common/refmsgpack.hpp"

using namespace vf;

uint64_t vf_total(const std::string&) { return 0; }

struct Piece { MVal value; std::string text; size_t start = 0, value_begin = 0, end = 0; bool is_number = false; };

static bool tol_equal(const MVal& e, const MVal& y, std::string& why) {
  CmpOpt co; co.mode = Cmp::Tol; co.tol_rel = kUseDouble ? 1e-6 : 1e-5;
  return mv_equal(e, y, co, &why);
}

template <class Src, class Pos>
static void drive(Ctx& c, bool msgpack, Src& src, Pos pos, const std::vector<Piece>& pieces, size_t total, const char* kind, const std::string& wit,
                  std::vector<std::pair<int, std::string>>* record, const MVal* filter = nullptr) {
  AJ::JsonDocument doc, fdoc;
  if (filter) build(fdoc.to<AJ::JsonVariant>(), *filter);
  using namespace AJ::DeserializationOption;
  for (size_t i = 0; i < pieces.size(); i++) {
    const Piece& p = pieces[i];
    AJ::DeserializationError err;
    if (filter) err = msgpack ? AJ::deserializeMsgPack(doc, src, Filter(fdoc), NestingLimit(50)) : AJ::deserializeJson(doc, src, Filter(fdoc), NestingLimit(50));
    else err = msgpack ? AJ::deserializeMsgPack(doc, src, NestingLimit(50)) : AJ::deserializeJson(doc, src, NestingLimit(50));
    size_t at = pos();
    c.count("calls");
    std::string w = std::string(kind) + ", document " + std::to_string(i) + " of " + std::to_string(pieces.size()) + "; " + wit;
    if (err != AJ::DeserializationError::Ok) { c.violation("stream-document-rejected", std::string("call ") + std::to_string(i) + " returned " + err_name(err) + " for " + printable(p.text, 80), w); return; }
    MVal y = extract(doc); std::string why;
    if (!filter && !tol_equal(p.value, y, why)) { c.violation("stream-wrong-document", "call " + std::to_string(i) + " returned another document: " + why + " (got " + describe(y, 120) + ")", w); return; }
    bool ok = at == p.end || (p.is_number && at == std::min(total, p.end + 1));
    if (!ok) { c.violation("stream-consumption", "after call " + std::to_string(i) + " the stream is at byte " + std::to_string(at) + ", the document ends at byte " + std::to_string(p.end) + (p.is_number ? " (number: one further byte allowed)" : ""), w); return; }
    if (p.is_number && at == p.end + 1) c.count("numbers_consuming_one_more_byte");
    if (record) { std::string s; AJ::serializeJson(doc, s); record->push_back({(int)err.code(), s + "@" + std::to_string(at)}); }
  }
  // past the last document: empty input, nothing more consumed than what is there
  auto err = filter ? (msgpack ? AJ::deserializeMsgPack(doc, src, Filter(fdoc)) : AJ::deserializeJson(doc, src, Filter(fdoc))) : (msgpack ? AJ::deserializeMsgPack(doc, src) : AJ::deserializeJson(doc, src));
  if (err != AJ::DeserializationError::EmptyInput) c.violation("stream-end-misreported", std::string("a call at the end of the stream returned ") + err_name(err) + " instead of EmptyInput", std::string(kind) + "; " + wit);
}

void vf_run_case(Ctx& c, uint64_t index) {
  Rng r(c.seed, 16, index);
  bool msgpack = c.mode == "msgpack";
  int n = (int)r.range(1, 6);
  std::vector<Piece> pieces;
  std::string stream;
  static const char* seps[] = {" ", "\n", "\r\n", "\t", "  \n", "\n\n"};
  for (int i = 0; i < n; i++) {
    Piece p;
    GenOpt g; g.max_depth = (int)r.range(0, 3); g.max_width = 4; g.budget = 20; g.str_mode = 1; g.dup_keys = false; g.float32_only = !kUseDouble;
    if (msgpack) { g.allow_binext = true; g.allow_nonfinite = false; g.dup_keys = true; }
    p.value = r.chance(1, 3) ? gen_scalar(r, g) : gen_value(r, g);
    if (r.chance(1, 3)) {   // strings whose last characters are backslashes and quotes (the skip routines of a filtered run must end them at the same byte)
      static const char* tails[] = {"C:\\tmp\\", "\\", "\\\\", "say \"hi\"", "\\\"", "a\\\"b\\", "'", "\\'"};
      MVal sv = MVal::str(r.pick(tails));
      if (p.value.k == MVal::Arr) p.value.a.push_back(sv);
      else if (p.value.k == MVal::Obj) { if (!p.value.find(sv.s)) p.value.o.emplace_back(sv.s, MVal::str(r.pick(tails))); }
      else p.value = sv;
    }
    p.start = stream.size();
    if (msgpack) {
      MpEncOpt eo; eo.minimal = r.coin();
      p.text = mp_encode(p.value, eo, &r);
      MVal ev; mp_decode(p.text, ev); p.value = ev;
      p.value_begin = stream.size();
      stream += p.text;
    } else {
      respell_floats(p.value, r);
      RenderOpt ro; ro.random_ws = r.chance(1, 3); ro.escape_weight = 1;
      p.text = render_json(p.value, ro, &r);
      p.is_number = p.value.is_number();
      // leading whitespace (consumed by the call that returns this document)
      if (r.chance(1, 3)) stream += r.pick(seps);
      // a number must be separated from what follows; other values may be followed directly
      p.value_begin = stream.size();
      stream += p.text;
    }
    p.end = stream.size();
    pieces.push_back(p);
    if (!msgpack) {
      bool next_needs_sep = p.is_number || r.coin();
      if (i + 1 < n || r.coin()) { if (next_needs_sep) stream += r.pick(seps); }
    }
  }
  // JSON: trailing whitespace after the last document must still yield EmptyInput afterwards
  std::string wit = (msgpack ? "msgpack stream " + hexs(stream.substr(0, 200)) : "json stream " + printable(stream, 400));
  if (c.want_sample()) c.sample(wit);
  c.nontrivial(fnv1a(stream));
  c.outcome(msgpack ? "msgpack-stream" : "json-stream");
  size_t total = stream.size();
  char* blk = (char*)malloc(total ? total : 1); memcpy(blk, stream.data(), total);

  std::vector<std::pair<int, std::string>> rec1, rec2;
  { ReadStats st; CountingReader cr{blk, blk + total, &st}; drive(c, msgpack, cr, [&]() { return st.delivered; }, pieces, total, "custom reader", wit, &rec1);
    if (st.reads_after_end > 1) c.violation("read-after-end", "custom reader called " + std::to_string(st.reads_after_end) + " times after reporting its end", wit); }
  // the same stream read through a filter: every call still ends exactly where its document ends (skipped values included)
  for (int k = 0; k < 2; k++) {
    MVal f = k == 0 ? (r.coin() ? MVal::boolean(false) : gen_filter(r)) : gen_filter(r);
    ReadStats st; CountingReader cr{blk, blk + total, &st};
    std::string kind = "custom reader with filter " + describe(f, 80);
    drive(c, msgpack, cr, [&]() { return st.delivered; }, pieces, total, kind.c_str(), wit, nullptr, &f);
    c.count("filtered_streams");
  }
  for (size_t chunk : {(size_t)1, (size_t)2, (size_t)3, (size_t)7, (size_t)64}) {
    ReadStats st; ChunkBuf cb(blk, total, chunk, &st); std::istream is(&cb);
    std::string kind = "std::istream (chunk " + std::to_string(chunk) + ")";
    drive(c, msgpack, is, [&]() { return cb.consumed(); }, pieces, total, kind.c_str(), wit, nullptr);
  }
#ifdef VF_ARDUINO_SHIM
  { ReadStats st; ShimStream ss; ss.p = blk; ss.end = blk + total; ss.st = &st; drive(c, msgpack, ss, [&]() { return st.delivered; }, pieces, total, "Arduino Stream", wit, nullptr); c.count("arduino_streams"); }
#endif
  // the result of a call never depends on bytes beyond those it consumed: same stream, different continuation after document k
  if (!pieces.empty()) {
    size_t k = (size_t)r.below(pieces.size());
    size_t cut = pieces[k].end;
    bool skip = false;
    if (pieces[k].is_number) { if (cut < total) cut++; else skip = true; }   // the byte after a number is consumed: it may matter
    if (!skip) {
    std::string alt = stream.substr(0, cut);
    size_t extra = (size_t)r.below(30);
    for (size_t i = 0; i < extra; i++) alt += (char)r.below(256);
    std::vector<Piece> head(pieces.begin(), pieces.begin() + (long)k + 1);
    char* b2 = (char*)malloc(alt.size() ? alt.size() : 1); memcpy(b2, alt.data(), alt.size());
    ReadStats st; CountingReader cr{b2, b2 + alt.size(), &st};
    // drive only the first k+1 documents (the tail is arbitrary bytes)
    AJ::JsonDocument doc;
    for (size_t i = 0; i <= k; i++) {
      auto err = msgpack ? AJ::deserializeMsgPack(doc, cr, AJ::DeserializationOption::NestingLimit(50)) : AJ::deserializeJson(doc, cr, AJ::DeserializationOption::NestingLimit(50));
      std::string s; AJ::serializeJson(doc, s);
      std::pair<int, std::string> got{(int)err.code(), s + "@" + std::to_string(st.delivered)};
      if (i < rec1.size() && got != rec1[i]) { c.violation("result-depends-on-later-bytes", "document " + std::to_string(i) + " read as (" + std::to_string(got.first) + ", " + printable(got.second, 100) + ") with another continuation, (" + std::to_string(rec1[i].first) + ", " + printable(rec1[i].second, 100) + ") originally", wit + "  continuation=" + hexs(alt.substr(cut))); break; }
    }
    c.count("continuations_checked");
    free(b2);
    }
  }
  free(blk);
}
