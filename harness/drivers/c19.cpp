// C19 Capacity limits are clean edges and semantics do not depend on pool geometry.
//  mode "digest": the histories of C04 are replayed (same seed => same history in every build); every step is judged by the
//                 model as in C04 and a digest of everything observable is recorded for the offline cross-configuration comparison.
//  mode "limit" : workloads that sit exactly at, one below and one above each limit.
#include "../aj/apply.hpp"
#include "../common/driver_main.hpp"

using namespace vf;

uint64_t vf_total(const std::string&) { return 0; }

static void digest_case(Ctx& c, uint64_t index) {
  Rng r(c.seed, 19, index);
  HistOpt ho; ho.ndocs = (int)r.range(1, 2); ho.nrefs = 4; ho.key_pool = (int)r.range(2, 7); ho.max_nodes = (size_t)r.pick({20, 40, 80, 200}); ho.binext = true;
  Model m(ho.ndocs, ho.nrefs);
  AjExec x(ho.ndocs, ho.nrefs);
  Rng rx(c.seed, 190, index); x.rng = &rx;
  int steps = (int)r.range(5, 150);
  uint64_t dig = 0xcbf29ce484222325ull;
  size_t peak_demand = 0, peak_str = 0; bool stopped = false; std::string stopwhy;
  std::vector<std::string> log;
  auto wit = [&]() { std::string w; size_t from = log.size() > 10 ? log.size() - 10 : 0; for (size_t i = from; i < log.size(); i++) w += "#" + std::to_string(i) + " " + log[i] + "; "; return w; };
  int done = 0;
  for (; done < steps; done++) {
    Op o = gen_op(r, ho, m);
    adapt_op(o);
    log.push_back(op_str(o));
    Outcome exp = model_apply(m, o);
    bool bad = false;
    Report rep; rep.violation = [&](const std::string& cl, const std::string& de) { c.violation(cl, de, wit()); bad = true; };
    x.apply(o, exp, m, rep);
    for (size_t k = 0; k < m.refs.size(); k++) if (!m.refs[k].live) x.refs[k] = AJ::JsonVariant();
    // demand of this history against the limits of this configuration (model-based, library-independent)
    for (auto& d : m.docs) { peak_demand = std::max(peak_demand, slot_demand(d)); peak_str = std::max(peak_str, longest_string(d)); }
    bool below = peak_demand <= kMaxSlots && peak_str <= kMaxStringLength;
    if ((o.k == OpK::DeserJson || o.k == OpK::DeserMsgPack) && exp.bound) {   // model takes the library's float values
      MVal* n = m.resolve_read(o.t);
      AJ::JsonVariantConst v; x.at(o.t, false, [&](auto&& p) { v = p.template as<AJ::JsonVariantConst>(); });
      if (n) { MVal y = extract(v); if (!exp.resync && x.last_code == 0) { CmpOpt co; co.mode = Cmp::Tol; std::string why; if (!mv_equal(*n, y, co, &why)) c.violation("deserialized-value-differs", why, wit()); } m.put(*n, y); m.sweep(); }
    }
    for (size_t d = 0; d < x.docs.size() && !bad; d++) {
      Inspector::Snap sn = Inspector::inspect(*x.docs[d], x.docs[d]->overflowed());
      if (!sn.ok) { c.violation("structure", "doc" + std::to_string(d) + ": " + sn.error, wit()); bad = true; break; }
      if (x.docs[d]->overflowed()) {
        if (below && sn.pools >= ((size_t)AJ::detail::NULL_SLOT / ARDUINOJSON_POOL_CAPACITY + 1) && sn.usage < kMaxSlots && o.k != OpK::DocMove && o.k != OpK::DocSwap) {
          // every pool of the table is in use but some were cut short by shrinkToFit(): known finding C19-shrink-exhausts-pool-table
          c.violation("failure-below-limit", "pool table exhausted by pools cut short by shrinkToFit: " + std::to_string(sn.pools) + " pools hold only " + std::to_string(sn.usage) + " slots, the history needs " + std::to_string(peak_demand), wit());
          stopped = true; stopwhy = "pool table exhausted";
        } else if (below) { stopped = true; c.violation("failure-below-limit", "doc" + std::to_string(d) + " overflowed() although the history needs at most " + std::to_string(peak_demand) + " slots (limit " + std::to_string(kMaxSlots) + ") and strings of " + std::to_string(peak_str) + " bytes (limit " + std::to_string(kMaxStringLength) + ")", wit()); bad = true; }
        else { stopped = true; stopwhy = "limit reached"; }
        break;
      }
      MVal y = extract(*x.docs[d]); CmpOpt co; std::string why;
      if (!mv_equal(m.docs[d], y, co, &why)) { c.violation("document-differs-from-model", "doc" + std::to_string(d) + " " + why, wit()); bad = true; break; }
      std::string js, mp; AJ::serializeJson(*x.docs[d], js); AJ::serializeMsgPack(*x.docs[d], mp);
      dig = fnv1a(js, dig); dig = fnv1a(mp, dig);
      uint64_t extra[4] = {AJ::measureJson(*x.docs[d]), AJ::measureJsonPretty(*x.docs[d]), x.docs[d]->size(), x.docs[d]->nesting()};
      dig = fnv1a(extra, sizeof extra, dig);
    }
    uint64_t rets[3] = {(uint64_t)x.last_ret + 2ull * x.last_has_ret, (uint64_t)x.last_bound + 2ull * x.last_has_bound, (uint64_t)(x.last_code + 1)};
    dig = fnv1a(rets, sizeof rets, dig);
    if (bad || stopped) break;
  }
  x.docs.clear();
  for (auto& a : x.allocs) { if (!a->live.empty()) c.violation("leak-after-destruction", std::to_string(a->live.size()) + " blocks", wit()); if (!a->errors.empty()) c.violation("allocator-protocol", a->errors[0], wit()); }
  bool below = peak_demand <= kMaxSlots && peak_str <= kMaxStringLength && !stopped;
  char buf[256];
  snprintf(buf, sizeof buf, "\"digest\":\"%016llx\",\"steps\":%d,\"below\":%s,\"demand\":%zu,\"maxstr\":%zu", (unsigned long long)dig, done, below ? "true" : "false", peak_demand, peak_str);
  c.record(buf);
  c.outcome(below ? "below-limits" : "reaches-a-limit");
  c.count("history_steps", (uint64_t)done);
  { uint64_t h = 0xcbf29ce484222325ull; for (auto& l : log) h = fnv1a(l, h); c.nontrivial(h); }
  if (c.want_sample()) c.sample(std::to_string(done) + " steps, peak demand " + std::to_string(peak_demand) + " slots: " + (log.empty() ? "" : log[0]) + "; ...");
}

// ------------------------------------------------------------------ limits

static MVal kind_value(int kind, size_t i) {
  switch (kind) {
    case 0: return MVal::sint((int64_t)i % 1000);                      // 1 slot
    case 1: return MVal::uint(0x100000000ull + i);                     // 2 slots (extension)
    case 2: return MVal::str("same string");                           // 1 slot, shared node
    case 3: return MVal::str("s" + std::to_string(i));                 // 1 slot, own node
    case 4: return MVal::flt(0.1 + (double)i);                         // double: 2 slots when doubles are enabled
    default: return MVal::boolean(i & 1);
  }
}
static size_t slots_of(int kind) { return (kind == 1 || (kind == 4 && kUseDouble)) ? 2 : 1; }

static void limit_case(Ctx& c, uint64_t index) {
  Rng r(c.seed, 191, index);
  int scenario = (int)(index % 4);
  if (kMaxSlots > 70000 && scenario != 2) scenario = 2;   // 4-byte slot ids: the slot limit is out of reach, only string limits
  SpyAllocator sa;
  std::string wit;
  {
    AJ::JsonDocument doc(&sa);
    if (scenario == 0 || scenario == 3) {
      // fill an array (or an object) until the library refuses, then check the edge
      int kind = (int)r.below(6); bool as_object = scenario == 3 && kMaxSlots < 1000;   // filling an object through doc[key] is quadratic
      size_t per = slots_of(kind) + (as_object ? 1 : 0);
      size_t expect = kMaxSlots / per;
      wit = std::string(as_object ? "object" : "array") + " filled with values of kind " + std::to_string(kind) + " (" + std::to_string(per) + " slots each), limit " + std::to_string(kMaxSlots) + " slots";
      MVal model = as_object ? MVal::obj() : MVal::arr();
      size_t added = 0; bool refused = false;
      BuildOpt bo;
      for (size_t i = 0; i < expect + 3; i++) {
        MVal v = kind_value(kind, i);
        bool ok;
        if (as_object) { std::string k = "k" + std::to_string(i); AJ::JsonVariant m = doc[k].to<AJ::JsonVariant>(); ok = !m.isUnbound() && build(m, v, bo) && !doc.overflowed(); if (ok) model.o.emplace_back(k, v); }
        else { AJ::JsonVariant e = doc.add<AJ::JsonVariant>(); ok = !e.isUnbound() && build(e, v, bo) && !doc.overflowed(); if (ok) model.a.push_back(v); else if (!e.isUnbound()) model.a.push_back(MVal::null()); }
        if (!ok) { refused = true; break; }
        added++;
      }
      c.count("limit_fills");
      Inspector::Snap sn = Inspector::inspect(doc, true);
      if (!sn.ok) { c.violation("structure-at-limit", sn.error, wit); return; }
      if (!refused) c.violation("limit-not-enforced", "more than " + std::to_string(expect) + " values were accepted (" + std::to_string(sn.usage) + " slots in use, ids are " + std::to_string(ARDUINOJSON_SLOT_ID_SIZE) + " bytes wide)", wit);
      else {
        if (!doc.overflowed()) c.violation("overflowed-not-set", "an insertion was refused but overflowed() is false", wit);
        if (added + 1 < expect) c.violation("failure-below-limit", "only " + std::to_string(added) + " values fit, " + std::to_string(expect) + " are within the limit of " + std::to_string(kMaxSlots) + " slots", wit);
      }
      // the document is intact
      ExtractState es; MVal y = extract(doc, &es);
      if (es.overflow) { c.violation("document-not-traversable", "after reaching the slot limit", wit); return; }
      // the refused element may have left a null element / member behind (partial insertion): compare the accepted prefix
      { MVal yy = y, mm = stored_form(model);
        if (yy.k == MVal::Arr && yy.a.size() > added) yy.a.resize(added);
        if (mm.k == MVal::Arr && mm.a.size() > added) mm.a.resize(added);
        if (yy.k == MVal::Obj && yy.o.size() > added) yy.o.resize(added);
        CmpOpt co; std::string why; if (!mv_equal(mm, yy, co, &why)) c.violation("document-corrupted-at-limit", why, wit); }
      // usable again after removals
      size_t before = doc.size();
      for (int k = 0; k < 4 && doc.size(); k++) { if (as_object) { auto o = doc.as<AJ::JsonObject>(); o.remove(o.begin()); } else doc.remove(0); }
      bool ok1 = as_object ? doc["again"].set(1) : doc.add(1);
      (void)ok1;   // the sticky overflow flag may make set() report false (don't-care 5); the effect counts
      bool present = as_object ? doc["again"] == 1 : doc[doc.size() - 1] == 1;
      if (before >= 4 && !present) c.violation("unusable-after-removal", "after removing 4 values a new value cannot be inserted", wit);
      sn = Inspector::inspect(doc, true);
      if (!sn.ok) c.violation("structure-at-limit", "after removal and re-insertion: " + sn.error, wit);
      doc.clear();
      if (doc.overflowed()) c.violation("overflowed-after-clear", "", wit);
      if (!sa.live.empty()) c.violation("blocks-live-after-clear", std::to_string(sa.live.size()) + " blocks", wit);
      doc.add("fresh"); if (doc[0] != "fresh" || doc.overflowed()) c.violation("unusable-after-clear", "", wit);
      c.outcome("slot-limit");
    } else if (scenario == 1) {
      // every slot holds the same string: reference count at its maximum, then released one by one
      wit = "all slots use one shared string";
      size_t n = 0;
      for (size_t i = 0; i < kMaxSlots + 2; i++) { if (!doc.add(std::string("shared"))) break; n++; }
      Inspector::Snap sn = Inspector::inspect(doc, true);
      if (!sn.ok) { c.violation("structure-at-limit", sn.error, wit); return; }
      if (n + 1 < kMaxSlots) c.violation("failure-below-limit", "only " + std::to_string(n) + " users of one string fit", wit);
      for (size_t i = 0; i < n; i += 2) doc.remove(0);
      sn = Inspector::inspect(doc, true);
      if (!sn.ok) { c.violation("structure-at-limit", "after releasing half of the users: " + sn.error, wit); return; }
      for (AJ::JsonVariantConst e : doc.as<AJ::JsonArrayConst>()) if (e != "shared") { c.violation("document-corrupted-at-limit", "a user of the shared string reads something else", wit); break; }
      c.count("limit_fills"); c.outcome("refcount-limit");
    } else {
      // strings at max-1, max, max+1 through set(), as key, and through both deserializers
      if (kMaxStringLength > (1u << 20)) { c.outcome("string-limit-out-of-reach"); return; }
      long d = (long)r.range(-2, 6);
      size_t n = (size_t)((long)kMaxStringLength + d);
      std::string s(n, 'x'); for (size_t i = 0; i < n; i += 7) s[i] = (char)('a' + i % 26);
      bool fits = n <= kMaxStringLength;
      wit = "string of " + std::to_string(n) + " bytes, limit " + std::to_string(kMaxStringLength);
      unsigned how = (unsigned)r.below(5);
      doc["keep"] = 42;
      // a string already in the document that equals the over-long one cut at (length mod 2^bits): a length that wraps must not alias it
      std::string twin; bool has_twin = !fits && r.coin();
      if (has_twin) { twin = s.substr(0, n - (kMaxStringLength + 1)); doc["twin"] = twin; wit += ", stored twin of " + std::to_string(twin.size()) + " bytes"; }
      bool ok = false; std::string got;
      auto readback = [&]() { AJ::JsonString js = doc["s"].as<AJ::JsonString>(); return js.isNull() ? std::string() : std::string(js.c_str(), js.size()); };
      if (how == 0) { ok = doc["s"].set(s); got = readback(); wit += ", set(std::string)"; }
      else if (how == 1) { ok = doc[s].set(7); ok = ok && doc[s] == 7; got = ok ? s : ""; wit += ", as object key"; }
      else if (how == 2) { auto e = AJ::deserializeJson(doc["s"], "\"" + s + "\""); ok = e == AJ::DeserializationError::Ok; if (!ok && e != AJ::DeserializationError::NoMemory) c.violation("limit-misreported", std::string("deserializeJson returned ") + err_name(e), wit); got = readback(); wit += ", deserializeJson"; }
      else if (how == 3) { std::string b; if (n < 32) b += (char)(0xa0 | n); else if (n < 256) { b += (char)0xd9; be_put(b, n, 1); } else if (n < 65536) { b += (char)0xda; be_put(b, n, 2); } else { b += (char)0xdb; be_put(b, n, 4); } b += s;
        auto e = AJ::deserializeMsgPack(doc["s"], b); ok = e == AJ::DeserializationError::Ok; if (!ok && e != AJ::DeserializationError::NoMemory) c.violation("limit-misreported", std::string("deserializeMsgPack returned ") + err_name(e), wit); got = readback(); wit += ", deserializeMsgPack"; }
      else { ok = doc["s"].set(AJ::serialized(s)); AJ::JsonDocument tmp; std::string js; AJ::serializeJson(doc["s"], js); got = ok ? js : ""; if (!ok) got = ""; wit += ", serialized()"; }
      if (fits) { if (!ok || (how != 4 && got != s) || doc.overflowed()) c.violation("failure-below-limit", "a string within the limit was refused or altered (ok=" + std::to_string(ok) + ", overflowed=" + std::to_string(doc.overflowed()) + ", got " + std::to_string(got.size()) + " bytes)", wit); }
      else {
        if (ok && how != 4) c.violation("limit-not-enforced", "a string longer than the limit was accepted (" + std::to_string(got.size()) + " bytes read back)", wit);
        if (!ok && !doc.overflowed() && how != 1) c.violation("overflowed-not-set", "", wit);
        if (!got.empty() && got != s && how != 4) c.violation("document-corrupted-at-limit", "a truncated / wrapped string was stored (" + std::to_string(got.size()) + " bytes)", wit);
      }
      if (doc["keep"] != 42) c.violation("document-corrupted-at-limit", "an unrelated member changed", wit);
      if (has_twin && doc["twin"].as<std::string>() != twin) c.violation("document-corrupted-at-limit", "the stored shorter string changed", wit);
      if (has_twin && how == 1 && doc.as<AJ::JsonObjectConst>().size() != 2) c.violation("limit-not-enforced", "an over-long key was added under a wrapped length (object has " + std::to_string(doc.as<AJ::JsonObjectConst>().size()) + " members)", wit);
      Inspector::Snap sn = Inspector::inspect(doc, true);
      if (!sn.ok) c.violation("structure-at-limit", sn.error, wit);
      c.count("limit_fills"); c.outcome(fits ? "string-within-limit" : "string-above-limit");
    }
  }
  if (!sa.live.empty()) c.violation("leak-after-destruction", std::to_string(sa.live.size()) + " blocks live after destruction", wit);
  if (!sa.errors.empty()) c.violation("allocator-protocol", sa.errors[0], wit);
  c.nontrivial(index);
  if (c.want_sample()) c.sample(wit);
}

void vf_run_case(Ctx& c, uint64_t index) {
  if (c.mode == "digest") digest_case(c, index); else limit_case(c, index);
}
