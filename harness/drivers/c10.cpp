// C10 deserializeJson accepts exactly the documented dialect and classifies the rest.
#include "../aj/extract.hpp"
#include "../common/dialect.hpp"
#include "../common/driver_main.hpp"
#include "../common/gen_input.hpp"

using namespace vf;

static const char* TOK[] = {"{", "}", "[", "]", ",", ":", "\"s\\u0041\"", "'q'", "k_1", "1", "-1.5e2", "true", "false", "null", " \n", "//c\n", "/*c*/", "#", "/*a*b/c*/"};
static const int NTOK = 19;

static int tok_len() { return 5; }

uint64_t vf_total(const std::string& mode) {
  if (mode.rfind("tokens", 0) == 0) {
    int L = mode.size() > 6 ? atoi(mode.c_str() + 6) : tok_len();
    uint64_t t = 0, p = 1;
    for (int l = 1; l <= L; l++) { p *= NTOK; t += p; }
    return t;
  }
  if (mode == "hex") return 4 * 256 * 2;
  if (mode == "keywords") return 3 * 5 * 256 + 3 * 32;
  return 0;
}

static DialectOpt build_opt(int limit) {
  DialectOpt o;
  o.comments = ARDUINOJSON_ENABLE_COMMENTS; o.nan = ARDUINOJSON_ENABLE_NAN; o.inf = ARDUINOJSON_ENABLE_INFINITY; o.decode_unicode = ARDUINOJSON_DECODE_UNICODE;
  o.limit = limit; o.max_string = kMaxStringLength;
  return o;
}

static bool value_matches(const MVal& e, const MVal& y, bool loose, std::string& why, const std::string& path) {
  auto fail = [&](const std::string& w) { if (why.empty()) why = path + ": " + w; return false; };
  if (e.is_number()) {
    if (!y.is_number()) return fail("number " + e.s + " read as " + describe(y, 60));
    if (e.k == MVal::Int) return (y.k == MVal::Int && y.neg == e.neg && y.mag == e.mag) ? true : fail("integer " + e.s + " read as " + describe(y));
    long double v = (long double)e.f, g = y.as_ld();
    if (v != v) return g != g ? true : fail("NaN read as " + describe(y));
    if (std::isinf(v)) return g == v ? true : fail("infinity read as " + describe(y));
    LitInfo li = analyse_literal(e.s);
    std::string bad = kUseDouble ? judge_parsed(li, g, 1e-6, 1e-13) : judge_parsed(li, g, 1e-5, 1e-5, 1.2e-38L, 3.4e38L);
    return bad.empty() ? true : fail(bad + ": " + e.s + " read as " + describe(y));
  }
  if (e.k != y.k) return fail("expected " + describe(e, 60) + " got " + describe(y, 60));
  switch (e.k) {
    case MVal::Str: return (loose || e.s == y.s) ? true : fail("string content differs: expected \"" + printable(e.s, 60) + "\" got \"" + printable(y.s, 60) + "\"");
    case MVal::Arr:
      if (e.a.size() != y.a.size()) return fail("array size differs");
      for (size_t i = 0; i < e.a.size(); i++) if (!value_matches(e.a[i], y.a[i], loose, why, path + "[" + std::to_string(i) + "]")) return false;
      return true;
    case MVal::Obj:
      if (e.o.size() != y.o.size()) return fail("object size differs");
      for (size_t i = 0; i < e.o.size(); i++) {
        if (!loose && e.o[i].first != y.o[i].first) return fail("member key/order differs");
        if (!value_matches(e.o[i].second, y.o[i].second, loose, why, path + "." + printable(e.o[i].first, 20))) return false;
      }
      return true;
    default: { CmpOpt co; return mv_equal(e, y, co, &why, path); }
  }
}

static void judge(Ctx& c, const std::string& text, int limit, const char* origin) {
  DialectOpt o = build_opt(limit);
  Verdict v = dialect(text, o);
  char* in = (char*)malloc(text.size() ? text.size() : 1); memcpy(in, text.data(), text.size());
  AJ::JsonDocument doc;
  auto err = AJ::deserializeJson(doc, (const char*)in, text.size(), AJ::DeserializationOption::NestingLimit((uint8_t)limit));
  free(in);
  c.count("inputs_judged");
  std::string wit = std::string(origin) + " limit=" + std::to_string(limit) + " text=" + printable(text, 400);
  if (!err_in_enum(err)) { c.violation("code-out-of-enum", "return value outside the documented codes", wit); return; }
  switch (v.k) {
    case Verdict::DontCare: c.outcome("dont-care"); return;
    case Verdict::MustOk: {
      c.outcome("must-ok");
      if (err != AJ::DeserializationError::Ok) { c.violation("dialect-text-rejected", std::string("returned ") + err_name(err) + " for a text of the documented dialect", wit); return; }
      MVal y = extract(doc); std::string why;
      if (!value_matches(v.value, y, v.value_loose, why, "$")) c.violation("dialect-value-differs", why, wit + "  got=" + describe(y, 200));
      return;
    }
    case Verdict::MustFail: {
      static const char* nm[] = {"Ok", "EmptyInput", "IncompleteInput", "InvalidInput", "NoMemory", "TooDeep"};
      c.outcome(std::string("must-fail:") + nm[*v.codes.begin()]);
      if (err == AJ::DeserializationError::Ok) {
        std::string kind = v.codes.count(D_INCOMPLETE) ? "unterminated-input-accepted" : "non-dialect-text-accepted";
        c.violation(kind, std::string("returned Ok, the dialect says ") + nm[*v.codes.begin()] + " (" + v.note + " at byte " + std::to_string(v.pos) + ")", wit + "  got=" + describe(extract(doc), 200));
      } else if (!v.codes.count((int)err.code())) {
        std::string want; for (int k : v.codes) want += std::string(want.empty() ? "" : " or ") + nm[k];
        c.violation("error-misclassified", std::string("returned ") + err_name(err) + ", expected " + want + " (" + v.note + " at byte " + std::to_string(v.pos) + ")", wit);
      }
      return;
    }
  }
}

void vf_run_case(Ctx& c, uint64_t index) {
  Rng r(c.seed, 10, index);
  if (c.mode.rfind("tokens", 0) == 0) {
    uint64_t i = index, p = NTOK; int len = 1;
    while (i >= p) { i -= p; p *= NTOK; len++; }
    std::string text; std::string last;
    for (int k = 0; k < len; k++) { last = TOK[i % NTOK]; i /= NTOK; text += last; }
    judge(c, text, 10, "token-sequence");
    // the same sequence with the end of input inside the last token
    if (last.size() > 1) judge(c, text.substr(0, text.size() - (last.size() + 1) / 2), 10, "token-sequence-cut");
    // and under a tight nesting limit
    if ((index & 3) == 0) judge(c, text, (int)(index >> 2) % 3, "token-sequence-limit");
    c.nontrivial(index);
    if (c.want_sample()) c.sample("token sequence " + printable(text, 80));
    return;
  }
  if (c.mode == "hex") {
    int pos = (int)(index / 512), b = (int)((index / 2) % 256), q = (int)(index % 2);
    if (b == 0) return;
    std::string s = q ? "'" : "\"";
    std::string hex = "0041"; hex[(size_t)pos] = (char)b;
    std::string text = s + "x\\u" + hex + "y" + s;
    judge(c, text, 10, "unicode-escape-digit");
    judge(c, "[" + text + "]", 10, "unicode-escape-digit");
    c.nontrivial(index);
    if (c.want_sample()) c.sample(printable(text));
    return;
  }
  if (c.mode == "keywords") {
    // the literals true / false / null with every byte value at every position, and with every subset of letters in the other case,
    // as top-level value, array element, member value and after a comma (parse path), judged by the dialect recogniser
    static const char* kws[] = {"true", "false", "null"};
    std::string kw;
    if (index < 3 * 5 * 256) {
      kw = kws[index / 1280]; size_t pos = (size_t)((index / 256) % 5); int b = (int)(index % 256);
      if (pos >= kw.size() || b == 0) return;
      kw[pos] = (char)b;
    } else {
      uint64_t i2 = index - 3 * 5 * 256; kw = kws[i2 / 32]; unsigned mask = (unsigned)(i2 % 32);
      for (size_t k = 0; k < kw.size(); k++) if (mask & (1u << k)) kw[k] = (char)(kw[k] ^ 0x20);
    }
    judge(c, kw, 10, "keyword-variant");
    judge(c, "[" + kw + "]", 10, "keyword-variant");
    judge(c, "{\"a\":" + kw + "}", 10, "keyword-variant");
    judge(c, "[1," + kw + ",2]", 10, "keyword-variant");
    judge(c, "[" + kw, 10, "keyword-variant");
    c.nontrivial(index);
    if (c.want_sample()) c.sample(printable(kw));
    return;
  }
  // generated, mutated and random texts
  GenInput in = gen_input(r, false);
  std::string text = in.bytes;
  size_t z = text.find('\0'); if (z != std::string::npos) text = text.substr(0, z);   // a NUL ends a JSON input
  if (text.size() > 3000) text = text.substr(0, 3000);
  static const int lims[] = {0, 1, 2, 3, 10, 10, 10, 50, 255};
  int limit = r.pick(lims);
  // dialect spellings the RFC generator never produces
  if (r.chance(1, 5)) {
    for (auto& ch : text) if (ch == '"' && r.chance(1, 6)) ch = '\'';
  }
  if (r.chance(1, 6)) { size_t p = text.find_first_of(",[{"); if (p != std::string::npos) text.insert(p + 1, r.coin() ? "/*x*/" : "//y\n"); }
  if (r.chance(1, 6)) {   // comments with arbitrary bodies over a hostile alphabet, terminated or not, at a random token boundary
    static const char calpha[] = "**//  a\n\"";
    std::string body; size_t n = (size_t)r.below(9); for (size_t i = 0; i < n; i++) body += calpha[r.below(sizeof calpha - 1)];
    std::string cm;
    switch (r.below(4)) {
      case 0: case 1: { size_t e = body.find("*/"); if (e != std::string::npos) body.erase(e, 1); cm = "/*" + body + "*/"; break; }
      case 2: { for (auto& ch : body) if (ch == '\n') ch = ' '; cm = "//" + body + "\n"; break; }
      default: cm = "/*" + body; break;   // possibly unterminated
    }
    std::vector<size_t> at; for (size_t i = 0; i < text.size(); i++) if (strchr(",[]{}:", text[i])) at.push_back(i);
    size_t p = at.empty() ? 0 : at[r.below(at.size())] + (size_t)r.below(2);
    text.insert(std::min(p, text.size()), cm);
    c.count("hostile_comments");
  }
  if (r.chance(1, 8)) { static const char* sp[] = {"NaN", "-NaN", "Infinity", "-Infinity", "inf", "nan", "+5", ".5", "5.", "1e", "007", "-", "+", "1e5.", "0x10", "1_000"}; size_t p = text.find_first_of("0123456789"); if (p != std::string::npos) text.replace(p, 1, r.pick(sp)); }
  if (r.chance(1, 12)) {   // number tokens around the 63-character limit
    size_t n = (size_t)r.range(60, 72);
    std::string tok;
    switch (r.below(4)) {
      case 0: tok = "1." + std::string(n - 4, '0') + "e5"; break;
      case 1: tok = std::string(n, '7'); break;
      case 2: tok = "0." + std::string(n - 6, '0') + "1e80"; break;
      default: tok = "-" + std::string(n - 3, '9') + ".5"; break;
    }
    size_t p = text.find_first_of("0123456789");
    if (p != std::string::npos && r.coin()) { size_t e = text.find_first_not_of("0123456789.eE+-", p); text.replace(p, (e == std::string::npos ? text.size() : e) - p, tok); }
    else text = r.coin() ? tok : (r.coin() ? "[" + tok + "]" : "{\"k\":" + tok + "}");
    c.count("long_number_tokens");
  }
  judge(c, text, limit, input_class_name(in.cls));
  c.nontrivial(fnv1a(text, (uint64_t)limit));
  if (c.want_sample()) c.sample(printable(text, 200));
}
