// C01 Valid JSON deserializes to exactly the value it denotes.
// Constructive workload: the denoted value is known before the text exists.
#include "../aj/extract.hpp"
#include "../aj/spy_alloc.hpp"
#include "../common/driver_main.hpp"
#include "../common/gen_value.hpp"
#include "../common/refjson.hpp"

using namespace vf;

uint64_t vf_total(const std::string&) { return 0; }

// expected (model, floats carry their literal in .s) vs extracted document
static bool c01_equal(const MVal& x, const MVal& y, std::string& why, const std::string& path) {
  auto fail = [&](const std::string& w) { if (why.empty()) why = path + ": " + w; return false; };
  if (x.k == MVal::Float) {
    if (!y.is_number()) return fail("number literal " + x.s + " became " + describe(y, 60));
    long double v = strtold(x.s.c_str(), nullptr), got = y.as_ld();
    double rel = significant_digits(x.s) > 7 ? 1e-13 : 1e-6;
    if (!kUseDouble) rel = 1e-5;  // DESIGN.md don't-care 14
    if (v == 0) return got == 0 ? true : fail("literal " + x.s + " (zero) parsed to " + describe(y));
    if (!(fabsl(got - v) <= (long double)rel * fabsl(v))) return fail("literal " + x.s + " parsed to " + describe(y) + " (outside " + std::to_string(rel) + " relative)");
    return true;
  }
  if (x.k != y.k) return fail("kind differs: expected " + describe(x, 60) + " got " + describe(y, 60));
  switch (x.k) {
    case MVal::Arr:
      if (x.a.size() != y.a.size()) return fail("array size " + std::to_string(y.a.size()) + ", expected " + std::to_string(x.a.size()));
      for (size_t i = 0; i < x.a.size(); i++) if (!c01_equal(x.a[i], y.a[i], why, path + "[" + std::to_string(i) + "]")) return false;
      return true;
    case MVal::Obj:
      if (x.o.size() != y.o.size()) return fail("object size " + std::to_string(y.o.size()) + ", expected " + std::to_string(x.o.size()));
      for (size_t i = 0; i < x.o.size(); i++) {
        if (x.o[i].first != y.o[i].first) return fail("member key/order differs: expected \"" + printable(x.o[i].first, 40) + "\" got \"" + printable(y.o[i].first, 40) + "\"");
        if (!c01_equal(x.o[i].second, y.o[i].second, why, path + "." + printable(x.o[i].first, 30))) return false;
      }
      return true;
    default: { CmpOpt o; return mv_equal(x, y, o, &why, path); }
  }
}

static bool has_dup(const MVal& m) {
  for (size_t i = 0; i < m.o.size(); i++) for (size_t j = 0; j < i; j++) if (m.o[i].first == m.o[j].first) return true;
  for (auto& e : m.a) if (has_dup(e)) return true;
  for (auto& e : m.o) if (has_dup(e.second)) return true;
  return false;
}

void vf_run_case(Ctx& c, uint64_t index) {
  Rng r(c.seed, 1, index);
  GenOpt g;
  g.str_mode = 1;
  g.float32_only = !kUseDouble;
  g.dup_keys = r.chance(1, 3);
  g.max_depth = (int)r.range(0, 6);
  g.max_width = (int)r.range(1, 8);
  if (r.chance(1, 30)) g.long_str = std::min<size_t>(kMaxStringLength, 400);
  if (kMaxStringLength < 300) { g.max_str = 24; if (g.long_str) g.long_str = kMaxStringLength; }
  MVal model = r.chance(1, 30) ? gen_chain(r, (int)r.range(1, 40), (int)r.below(3)) : gen_value(r, g);
  respell_floats(model, r);
  RenderOpt ro; ro.random_ws = r.chance(2, 3); ro.escape_weight = (int)r.below(6) + 1;
  std::string text;
  // leading / trailing RFC whitespace around the top-level value
  static const char* lead[] = {"", "", " ", "\n", "\r\n", "\t ", "  \n"};
  static const char* trail[] = {"", "", " ", "\n", "\r\n", "\t", " \n "};
  text = r.pick(lead);
  render_json_into(model, text, ro, &r);
  text += r.pick(trail);
  MVal expected = dedup_last_wins(model);
  if (!within_capacity(expected) || !within_capacity(model)) { c.outcome("over-capacity"); return; }
  size_t depth = model.nesting();
  uint8_t lim = (uint8_t)std::min<size_t>(255, r.coin() ? depth : std::max<size_t>(depth, 10) + r.below(3));
  std::string wit = "limit=" + std::to_string(lim) + " text=" + printable(text, 700);
  if (c.want_sample()) c.sample(wit);
  bool nontriv = model.is_container() || has_dup(model) || text.find('\\') != std::string::npos || model.k == MVal::Float;
  if (nontriv) c.nontrivial(fnv1a(text));
  if (has_dup(model)) c.count("texts_with_repeated_keys");

  // exactly sized input block (sized-pointer reader)
  char* in = (char*)malloc(text.size() ? text.size() : 1);
  memcpy(in, text.data(), text.size());

  SpyAllocator sa;
  {
    AJ::JsonDocument doc(&sa);
    // destination state
    unsigned dstate = (unsigned)r.below(10);
    MVal prev; GenOpt pg; pg.max_depth = 3; pg.allow_raw_json = true;
    AJ::DeserializationError err;
    AJ::JsonVariantConst got;
    MVal sibling_before; bool have_sibling = false;
    auto nl = AJ::DeserializationOption::NestingLimit(lim);
    switch (dstate) {
      case 0: err = AJ::deserializeJson(doc, (const char*)in, text.size(), nl); got = doc.as<AJ::JsonVariantConst>(); break;
      case 1: case 2: case 3: {  // dirty document
        prev = gen_value(r, pg);
        build(doc.to<AJ::JsonVariant>(), prev);
        if (dstate == 3) doc.shrinkToFit();
        err = AJ::deserializeJson(doc, (const char*)in, text.size(), nl); got = doc.as<AJ::JsonVariantConst>(); break;
      }
      case 4: case 5: {  // member destination through a proxy, sibling must survive
        prev = gen_value(r, pg);
        build(doc["sib"].to<AJ::JsonVariant>(), prev);
        if (dstate == 5) build(doc["dst"].to<AJ::JsonVariant>(), gen_value(r, pg));
        sibling_before = extract(doc["sib"]); have_sibling = true;
        err = AJ::deserializeJson(doc["dst"], (const char*)in, text.size(), nl);
        got = doc["dst"];
        break;
      }
      case 6: {  // element destination beyond the end
        doc.add(1);
        err = AJ::deserializeJson(doc[2], (const char*)in, text.size(), nl);
        got = doc[2];
        break;
      }
      case 8: {  // element destination right after the last element of a parsed array was removed
        AJ::deserializeJson(doc, "[1,\"two\",[3],{\"k\":4}]");
        size_t keep = (size_t)r.range(1, 3);
        while (doc.size() > keep) doc.remove(doc.size() - 1);
        err = AJ::deserializeJson(doc[keep], (const char*)in, text.size(), nl);
        got = doc[keep];
        if (doc.size() != keep + 1 || doc[0] != 1) c.violation("sibling-changed", "array does not have the expected elements after deserializing into the element behind a removed one (size " + std::to_string(doc.size()) + ")", wit);
        break;
      }
      case 9: {  // member destination right after the last member of a parsed object was removed
        AJ::deserializeJson(doc, "{\"a\":1,\"b\":[2],\"dst\":{\"x\":3},\"z\":null}");
        if (r.coin()) doc.remove("z"); else { doc.remove("z"); doc.remove("dst"); }
        err = AJ::deserializeJson(doc["dst"], (const char*)in, text.size(), nl);
        got = doc["dst"];
        if (doc["a"] != 1 || doc.as<AJ::JsonObjectConst>().size() != 3) c.violation("sibling-changed", "object does not have the expected members after deserializing into a member behind a removed one", wit);
        break;
      }
      default: {  // JsonVariant destination
        AJ::JsonVariant v = doc["a"]["b"].to<AJ::JsonVariant>();
        build(v, gen_value(r, pg));
        err = AJ::deserializeJson(v, (const char*)in, text.size(), nl);
        got = doc["a"]["b"];
      }
    }
    c.outcome(std::string("dest") + std::to_string(dstate));
    if (!err_in_enum(err)) c.violation("code-out-of-enum", "return value outside the six documented codes", wit);
    if (err != AJ::DeserializationError::Ok) {
      c.violation("valid-text-rejected", std::string("deserializeJson returned ") + err_name(err) + " for an RFC 8259 text within limits (dest state " + std::to_string(dstate) + ")", wit);
      c.outcome(std::string("rejected:") + err_name(err));
    } else {
      ExtractState es;
      MVal y = extract(got, &es);
      std::string why;
      if (es.overflow) c.violation("document-not-traversable", "traversal of the result does not end", wit);
      else if (!c01_equal(expected, y, why, "$")) c.violation("value-differs", why + " (dest state " + std::to_string(dstate) + ")", wit + "  expected=" + describe(expected, 300) + " got=" + describe(y, 300));
      if (es.cstr_unterminated) c.violation("cstr-not-terminated", "as<const char*>() is not NUL-terminated at size()", wit);
      if (got.nesting() > lim) c.violation("nesting-above-limit", "nesting() > limit after Ok", wit);
      if (have_sibling) {
        MVal sib = extract(doc["sib"]); CmpOpt o; std::string w2;
        if (!mv_equal(sibling_before, sib, o, &w2)) c.violation("sibling-changed", "deserializing into a member changed its sibling: " + w2, wit);
      }
      if (doc.overflowed()) c.violation("overflowed-after-ok", "overflowed() true after Ok", wit);
      c.outcome("ok");
    }
  }
  free(in);
  if (!sa.errors.empty()) c.violation("allocator-protocol", sa.errors[0], wit);
  if (!sa.live.empty()) c.violation("leak-after-destruction", std::to_string(sa.live.size()) + " blocks still live after the document was destroyed", wit);
}
