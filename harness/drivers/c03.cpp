// C03 Deserializers are memory-safe, input-bounded and source-independent on any bytes.
// Mode "bound" hosts the deserialization memory bound of C06.
#include "../aj/extract.hpp"
#include "../aj/inspector.hpp"
#include "../aj/readers.hpp"
#include "../aj/spy_alloc.hpp"
#include "../common/driver_main.hpp"
#include "../common/gen_input.hpp"

using namespace vf;

uint64_t vf_total(const std::string&) { return 0; }

static std::vector<int> kinds_for(bool msgpack) {
  std::vector<int> v;
  for (int k = 0; k < IN_COUNT; k++) {
#ifndef VF_ARDUINO_SHIM
    if (inkind_needs_shim(k)) continue;
#endif
    if (msgpack && inkind_zero_terminated(k)) continue;   // MessagePack is only given through bounded kinds
    v.push_back(k);
  }
  return v;
}

struct Result { AJ::DeserializationError err; MVal doc; bool traversable = true; };

// inputs that sit exactly at, one below and a little above the configured string-length limit
static GenInput capacity_input(Rng& r, bool msgpack) {
  GenInput in; in.msgpack = msgpack; in.cls = 5;
  static const long deltas[] = {-1, 0, 1, 2, 5, 64};
  size_t n = (size_t)((long)kMaxStringLength + r.pick(deltas));
  std::string body; body.reserve(n);
  for (size_t i = 0; i < n; i++) body += (char)('a' + (i * 7 + n) % 26);
  unsigned shape = (unsigned)r.below(4);
  if (!msgpack) {
    std::string q = "\"" + body + "\"";
    in.bytes = shape == 0 ? q : shape == 1 ? "[1,\"x\"," + q + ",2]" : shape == 2 ? "{" + q + ":1,\"k\":\"v\"}" : "{\"a\":[" + q + "," + q + "]}";
  } else {
    std::string h; if (n < 32) h += (char)(0xa0 | n); else if (n < 256) { h += (char)0xd9; be_put(h, n, 1); } else if (n < 65536) { h += (char)0xda; be_put(h, n, 2); } else { h += (char)0xdb; be_put(h, n, 4); }
    std::string sv = h + body;
    in.bytes = shape == 0 ? sv : shape == 1 ? std::string("\x93\x01", 2) + sv + "\x02" : shape == 2 ? std::string("\x82", 1) + sv + "\x01\xa1k\xa1v" : std::string("\x81\xa1" "a\x92", 4) + sv + sv;
  }
  return in;
}

static std::string show(const GenInput& in) { return in.msgpack ? "msgpack " + hexs(in.bytes.substr(0, 160)) + (in.bytes.size() > 160 ? "...(" + std::to_string(in.bytes.size()) + " bytes)" : "") : "json " + printable(in.bytes, 400); }

void vf_run_case(Ctx& c, uint64_t index) {
  Rng r(c.seed, 3, index);
  bool msgpack = c.mode == "msgpack" || (c.mode == "bound" && r.coin());
  GenInput in = gen_input(r, msgpack);
  if (kMaxStringLength <= 65535 && r.chance(1, kMaxStringLength > 1000 ? 60 : 25)) in = capacity_input(r, msgpack);   // (4-byte lengths: the limit is 4 GB, out of reach)
  static const int lims[] = {0, 1, 2, 10, 254, 255};
  uint8_t limit = r.chance(2, 3) ? (uint8_t)r.pick(lims) : (uint8_t)r.below(256);
  if (in.bytes.size() > 2000 || r.chance(1, 4)) limit = std::max<uint8_t>(limit, 10);
  bool use_filter = r.chance(1, 3);
  MVal fmodel = gen_filter(r);
  AJ::JsonDocument fdoc;
  if (use_filter) build(fdoc.to<AJ::JsonVariant>(), fmodel);
  DeserOpt o; o.msgpack = msgpack; o.use_filter = use_filter; o.filter = fdoc.as<AJ::JsonVariantConst>(); o.limit = limit; o.filter_first = r.coin(); o.chunk = (size_t)r.pick({1, 2, 3, 7, 64});
  std::string wit = std::string(input_class_name(in.cls)) + " " + show(in) + " limit=" + std::to_string(limit) + (use_filter ? " filter=" + describe(fmodel, 120) : "");
  if (c.want_sample()) c.sample(wit);
  c.nontrivial(fnv1a(in.bytes, mix3(limit, use_filter ? mv_hash(fmodel) : 0, msgpack)));
  c.outcome(std::string("input:") + input_class_name(in.cls));

  if (c.mode == "bound") {
    // C06: memory requested while deserializing <= one maximum-size string + A + B * bytes consumed
    SpyAllocator sa; sa.fail_above_size = 64u << 20;
    {
      AJ::JsonDocument doc(&sa);
      ReadStats st;
      sa.reset_counters();
      auto err = deser_kind(IN_CUSTOM_READER, doc, in.bytes, o, &st);
      uint64_t req = sa.bytes_requested;
      uint64_t bound = AJ::detail::sizeofString(kMaxStringLength) + (16u << 10) + 256ull * st.delivered;
      c.count("allocator_events", sa.calls());
      c.maxcount("max_bytes_requested", req);
      c.outcome(std::string("bound:") + err_name(err));
      if (req > bound) c.violation("memory-not-bounded-by-input", "requested " + std::to_string(req) + " bytes after consuming " + std::to_string(st.delivered) + " bytes of input (bound " + std::to_string(bound) + ", largest single request " + std::to_string(sa.largest_request) + ")", wit);
      if (sa.largest_request > AJ::detail::sizeofString(kMaxStringLength) + 4096 && sa.largest_request > 64 * (st.delivered + 64))
        c.violation("allocation-sized-by-header", "a single request of " + std::to_string(sa.largest_request) + " bytes after only " + std::to_string(st.delivered) + " bytes of input", wit);
      if (!sa.errors.empty()) c.violation("allocator-protocol", sa.errors[0], wit);
    }
    if (!sa.live.empty()) c.violation("leak-after-destruction", std::to_string(sa.live.size()) + " blocks live after destruction", wit);
    return;
  }

  std::vector<int> kinds = kinds_for(msgpack);
  // baselines: sized pointer on the full bytes and on the bytes up to the first NUL
  auto run = [&](int kind, const std::string& bytes, Result& out, ReadStats* st, bool checks) {
    SpyAllocator sa; sa.fail_above_size = 64u << 20;
    {
      AJ::JsonDocument doc(&sa);
      if (r.coin()) { doc["old"] = "content"; doc["n"] = 12345678901ll; }
      out.err = deser_kind(kind, doc, bytes, o, st);
      if (!err_in_enum(out.err)) c.violation("code-out-of-enum", std::string("return value outside the six documented codes (") + inkind_name(kind) + ")", wit);
      Inspector::Snap sn = Inspector::inspect(doc, doc.overflowed());
      if (!sn.ok) { c.violation("structure", std::string(inkind_name(kind)) + ": " + sn.error, wit); out.traversable = false; return; }
      ExtractState es; ExtractOpt eo; eo.max_nodes = 2000000;
      out.doc = extract(doc, &es, eo);
      if (es.overflow) { c.violation("document-not-traversable", inkind_name(kind), wit); out.traversable = false; return; }
      if (es.cstr_unterminated) c.violation("cstr-not-terminated", inkind_name(kind), wit);
      if (checks) {
        std::string s1, s2; AJ::serializeJson(doc, s1); AJ::serializeMsgPack(doc, s2);
        if (out.err == AJ::DeserializationError::Ok && doc.nesting() > limit) c.violation("nesting-above-limit", "nesting() = " + std::to_string(doc.nesting()) + " > limit after Ok", wit);
        doc.clear();
        if (!sa.live.empty()) c.violation("blocks-live-after-clear", std::to_string(sa.live.size()) + " blocks after clear()", wit);
        // the same input once more into the same (now cleared) document: same code, same document
        {
          auto e3 = deser_kind(kind, doc, bytes, o, nullptr);
          if (e3 != out.err) c.violation("reuse-differs", std::string("second deserialization of the same input into the same document returned ") + err_name(e3) + ", the first " + err_name(out.err), wit);
          else {
            Inspector::Snap s3 = Inspector::inspect(doc, doc.overflowed());
            if (!s3.ok) c.violation("structure", std::string("after reuse: ") + s3.error, wit);
            else { ExtractState e3s; ExtractOpt eo3; eo3.max_nodes = 2000000; MVal again = extract(doc, &e3s, eo3); CmpOpt co; std::string why; if (!e3s.overflow && !mv_equal(out.doc, again, co, &why)) c.violation("reuse-differs", "second deserialization of the same input gives another document: " + why, wit); }
          }
          c.count("reuse_runs");
          doc.clear();
        }
        doc["k"] = 1;
        auto e2 = AJ::deserializeJson(doc, "[1]");
        if (e2 != AJ::DeserializationError::Ok || doc[0] != 1) c.violation("unusable-after-error", std::string("document cannot be reused after ") + err_name(out.err), wit);
      }
    }
    if (!sa.live.empty()) c.violation("leak-after-destruction", std::to_string(sa.live.size()) + " blocks live after destruction (" + inkind_name(kind) + ")", wit);
    if (!sa.errors.empty()) c.violation("allocator-protocol", sa.errors[0], wit);
  };
  Result base_full, base_zt;
  run(IN_PTR_SIZE, in.bytes, base_full, nullptr, true);
  if (!base_full.traversable) return;
  std::string ztb = effective_bytes(IN_CSTR, in.bytes);
  bool has_nul = ztb.size() != in.bytes.size();
  if (has_nul && !msgpack) run(IN_PTR_SIZE, ztb, base_zt, nullptr, false); else base_zt = base_full;
  c.outcome(std::string("code:") + err_name(base_full.err));

  int nk = c.tier ? 6 : 4;
  for (int i = 0; i < nk; i++) {
    int kind = kinds[r.below(kinds.size())];
    Result res; ReadStats st;
    run(kind, in.bytes, res, &st, i == 0);
    if (!res.traversable) return;
    c.count(std::string("kind:") + inkind_name(kind));
    const Result& b = inkind_zero_terminated(kind) ? base_zt : base_full;
    if (res.err != b.err) { c.violation("source-dependent-code", std::string(inkind_name(kind)) + " returns " + err_name(res.err) + ", " + inkind_name(IN_PTR_SIZE) + " returns " + err_name(b.err) + " on the same bytes", wit); continue; }
    CmpOpt co; std::string why;
    if (!mv_equal(b.doc, res.doc, co, &why)) c.violation("source-dependent-document", std::string(inkind_name(kind)) + ": " + why, wit);
    if (st.counted) {
      c.count("counted_reads");
      if (st.reads_after_end) c.violation("read-after-end", std::string(inkind_name(kind)) + ": " + std::to_string(st.reads_after_end) + " read calls after the source reported its end", wit);
      if (st.delivered > in.bytes.size()) c.violation("read-beyond-input", "more bytes delivered than the input holds", wit);
    }
  }
}
