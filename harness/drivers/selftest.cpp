// Oracle self-test: emits cases for vlib/selftest.py, which cross-checks the reference JSON renderer/parser and the
// literal evaluator against CPython (json, float, int) and the MessagePack codec against fixed vectors of the specification.
// No ArduinoJson include.
#define VF_NO_MAIN
#include "../common/dialect.hpp"
#include "../common/driver_main.hpp"
#include "../common/gen_value.hpp"
#include "../common/refjson.hpp"
#include "../common/refmsgpack.hpp"
#include "../common/refnum.hpp"

using namespace vf;
void vf_run_case(Ctx&, uint64_t) {}
uint64_t vf_total(const std::string&) { return 0; }

// neutral dump: n | t | f | i<decimal> | d<hexfloat> | s<hex> | [ ... ] | { s<hex>: ... }
static void dump(const MVal& v, std::string& o) {
  char b[64];
  switch (v.k) {
    case MVal::Null: o += "n"; break;
    case MVal::Bool: o += v.b ? "t" : "f"; break;
    case MVal::Int: o += "i" + int_to_string(v.neg, v.mag); break;
    case MVal::Float: snprintf(b, sizeof b, "d%a", v.f); o += b; break;
    case MVal::Str: o += "s" + hexs(v.s); break;
    case MVal::Arr: o += "["; for (size_t i = 0; i < v.a.size(); i++) { if (i) o += ","; dump(v.a[i], o); } o += "]"; break;
    case MVal::Obj: o += "{"; for (size_t i = 0; i < v.o.size(); i++) { if (i) o += ","; o += "s" + hexs(v.o[i].first) + ":"; dump(v.o[i].second, o); } o += "}"; break;
    default: o += "?";
  }
}

int main(int argc, char** argv) {
  uint64_t n = argc > 1 ? strtoull(argv[1], 0, 10) : 3000;
  // (1) renderer + parser vs CPython json
  for (uint64_t i = 0; i < n; i++) {
    Rng r(7, 1, i);
    GenOpt g; g.str_mode = 1; g.dup_keys = r.coin(); g.max_depth = (int)r.range(0, 5);
    MVal m = gen_value(r, g);
    respell_floats(m, r);
    RenderOpt ro; ro.random_ws = r.coin(); ro.escape_weight = (int)r.range(1, 6);   // >= 1: RFC spelling (weight 0 is the serializer's own escaping, which leaves control bytes raw)
    std::string text = render_json(m, ro, &r);
    MVal parsed; std::string err;
    JsonParseOpt po; po.allow_raw_controls = false;
    bool ok = parse_json_strict(text, parsed, &err, po);
    std::string dm, dp; dump(m, dm); if (ok) dump(parsed, dp);
    printf("{\"k\":\"json\",\"text\":\"%s\",\"model\":\"%s\",\"parsed_ok\":%s,\"parsed\":\"%s\"}\n", hexs(text).c_str(), dm.c_str(), ok ? "true" : "false", dp.c_str());
  }
  // (2) literal evaluation vs CPython float()/int()
  for (uint64_t i = 0; i < n; i++) {
    Rng r(7, 2, i);
    std::string lit = r.chance(1, 3) ? gen_int_literal(r, false) : gen_literal(r, r.chance(1, 5) ? 800 : 60, true);
    LitInfo li = analyse_literal(lit);
    char b[64]; snprintf(b, sizeof b, "%a", strtod(lit.c_str(), nullptr));   // (the long double kept by analyse_literal is finer than a double; compare glibc strtod, the same routine family)
    { long double dv = li.v; double d2 = strtod(lit.c_str(), nullptr); if (!std::isinf(d2) && fabs(d2) >= 2.3e-308 && fabsl(dv - (long double)d2) > 1e-15L * fabsl(dv)) snprintf(b, sizeof b, "strtold-and-strtod-disagree"); }
    std::string iv = li.int_in_range ? int_to_string(li.neg, (uint64_t)li.mag) : "";
    printf("{\"k\":\"lit\",\"lit\":\"%s\",\"dbl\":\"%s\",\"is_int\":%s,\"int\":\"%s\",\"sig\":%d}\n", lit.c_str(), b, li.int_in_range ? "true" : "false", iv.c_str(), li.sig_digits);
  }
  // (3) MessagePack: fixed vectors of the specification + encode/decode identity over random values and widths
  struct Vec { const char* hex; const char* dump; };
  static const Vec vecs[] = {
    {"82a7636f6d70616374c3a6736368656d6100", "{s636f6d70616374:t,s736368656d61:i0}"},
    {"c0", "n"}, {"c2", "f"}, {"c3", "t"}, {"7f", "i127"}, {"e0", "i-32"}, {"ccff", "i255"}, {"cd0100", "i256"}, {"ceffffffff", "i4294967295"}, {"cfffffffffffffffff", "i18446744073709551615"},
    {"d080", "i-128"}, {"d18000", "i-32768"}, {"d280000000", "i-2147483648"}, {"d38000000000000000", "i-9223372036854775808"},
    {"ca3fc00000", "d0x1.8p+0"}, {"cb3ff8000000000000", "d0x1.8p+0"}, {"a0", "s"}, {"a161", "s61"}, {"d90161", "s61"}, {"da000161", "s61"}, {"db0000000161", "s61"},
    {"90", "[]"}, {"9301c0a161", "[i1,n,s61]"}, {"dc000101", "[i1]"}, {"dd0000000101", "[i1]"}, {"80", "{}"}, {"de0001a16101", "{s61:i1}"}, {"df00000001a16101", "{s61:i1}"},
  };
  for (auto& v : vecs) {
    std::string bytes; for (size_t i = 0; v.hex[i]; i += 2) { unsigned x; sscanf(v.hex + i, "%2x", &x); bytes += (char)x; }
    MVal m; MpDecodeResult r = mp_decode(bytes, m);
    std::string d; dump(m, d);
    printf("{\"k\":\"mpvec\",\"hex\":\"%s\",\"ok\":%s,\"consumed\":%zu,\"len\":%zu,\"got\":\"%s\",\"want\":\"%s\"}\n", v.hex, r.err == MpErr::Ok ? "true" : "false", r.pos, bytes.size(), d.c_str(), v.dump);
  }
  size_t bad = 0;
  for (uint64_t i = 0; i < n; i++) {
    Rng r(7, 3, i);
    GenOpt g; g.str_mode = 2; g.allow_binext = true; g.allow_nonfinite = true; g.wide_floats = true; g.dup_keys = true;
    MVal m = gen_value(r, g);
    MpEncOpt eo; eo.minimal = r.coin();
    std::string b = mp_encode(m, eo, &r);
    MVal back; MpDecodeResult rr = mp_decode(b, back);
    CmpOpt co; co.mode = Cmp::ByValue;
    // floats may be narrowed to f32 only when exact, so by-value equality must hold; every proper prefix must be Incomplete
    if (rr.err != MpErr::Ok || rr.pos != b.size() || !mv_equal(m, back, co)) bad++;
    for (size_t cut = 0; cut < b.size() && cut < 40; cut++) { MVal t; MpDecodeResult pr = mp_decode(b.substr(0, cut), t); if (pr.err != MpErr::Incomplete) { bad++; break; } }
  }
  printf("{\"k\":\"mprt\",\"cases\":%llu,\"bad\":%zu}\n", (unsigned long long)n, bad);
  // (4) dialect recogniser spot checks: text, options (c=comments,n=nan,i=inf,u=no-unicode), expected verdict
  struct D { const char* text; const char* opt; int limit; const char* want; };
  static const D ds[] = {
    {"[1,2]", "", 10, "ok"}, {" \n", "", 10, "fail:1"}, {"", "", 10, "fail:1"}, {"[1,2", "", 10, "fail:2"}, {"[1,,2]", "", 10, "fail:3"}, {"{\"a\":1}", "", 10, "ok"}, {"{a:1}", "", 10, "ok"},
    {"{'a':'b'}", "", 10, "ok"}, {"{\"a\" 1}", "", 10, "fail:3"}, {"[[1]]", "", 1, "fail:5"}, {"[[1]]", "", 2, "ok"}, {"tru", "", 10, "fail:2"}, {"trux", "", 10, "fail:3"}, {"truex", "", 10, "ok"},
    {"\"abc", "", 10, "fail:2"}, {"\"a\\qb\"", "", 10, "fail:3"}, {"\"\\u00e9\"", "", 10, "ok"}, {"\"\\u00g9\"", "", 10, "fail:3"}, {"\"\\u00", "", 10, "fail:2"}, {"/*c*/1", "c", 10, "ok"}, {"/*c*/1", "", 10, "fail:3"},
    {"[1 //x\n,2]", "c", 10, "ok"}, {"[1 //x", "c", 10, "fail:2"}, {"NaN", "n", 10, "ok"}, {"NaN", "", 10, "fail:3"}, {"-Infinity", "i", 10, "ok"}, {"nan", "n", 10, "fail:3"}, {"12 ", "", 10, "ok"}, {"12x", "", 10, "dontcare"},
    {"[1e5,.5,5.,+3,007]", "", 10, "ok"}, {"[1.2.3]", "", 10, "fail:3"}, {"{\"a\":1,\"a\":2}", "", 10, "ok"}, {"[1]garbage", "", 10, "ok"}, {"[", "", 0, "fail:5"}, {"\"\\u0041\"", "u", 10, "ok"},
  };
  for (auto& d : ds) {
    DialectOpt o; o.limit = d.limit; for (const char* p = d.opt; *p; p++) { if (*p == 'c') o.comments = true; if (*p == 'n') o.nan = true; if (*p == 'i') o.inf = true; if (*p == 'u') o.decode_unicode = false; }
    Verdict v = dialect(d.text, o);
    std::string got = v.k == Verdict::MustOk ? "ok" : v.k == Verdict::DontCare ? "dontcare" : "fail:" + std::to_string(*v.codes.begin());
    printf("{\"k\":\"dialect\",\"text\":\"%s\",\"got\":\"%s\",\"want\":\"%s\"}\n", hexs(d.text).c_str(), got.c_str(), d.want);
  }
  return 0;
}
