// C05 Allocation failure is reported and never corrupts the document.
// Fault enumeration: each scenario is run fault-free to count the failable
// allocator calls N, then once per failure position (single failure at k,
// failure from k onwards) plus random multi-failure schedules.
#include "../aj/apply.hpp"
#include "../common/driver_main.hpp"

using namespace vf;

uint64_t vf_total(const std::string&) { return 0; }

struct Schedule {
  int kind = 0;        // 0 none, 1 single at k, 2 from k on, 3 random subset
  uint64_t k = 0;
  unsigned pnum = 0;   // random subset: probability pnum/100
  uint64_t rseed = 0;
  std::string str() const {
    switch (kind) { case 0: return "no failure"; case 1: return "single failure at failable call " + std::to_string(k); case 2: return "every failable call from " + std::to_string(k) + " on fails";
      default: return "random failures p=" + std::to_string(pnum) + "% seed " + std::to_string(rseed); }
  }
};

static void arm(SpyAllocator& a, const Schedule& s, uint64_t upto) {
  a.no_failures();
  if (s.kind == 1) a.fail_at.insert(s.k);
  else if (s.kind == 2) a.fail_from = s.k;
  else if (s.kind == 3) { Rng r(s.rseed, 55, 0); for (uint64_t i = 1; i <= upto + 50; i++) if (r.below(100) < s.pnum) a.fail_at.insert(i); }
}

// absolute path of a target in the pre-state model (base may be a reference)
static bool path_of_id(const MVal& v, uint32_t id, Path& out) {
  if (v.id == id) return true;
  for (size_t i = 0; i < v.a.size(); i++) { Step s; s.is_key = false; s.index = i; out.push_back(s); if (path_of_id(v.a[i], id, out)) return true; out.pop_back(); }
  for (size_t i = 0; i < v.o.size(); i++) {
    if (v.find(v.o[i].first) != &v.o[i].second) continue;  // shadowed duplicate: not addressable by key
    Step s; s.key = v.o[i].first; out.push_back(s); if (path_of_id(v.o[i].second, id, out)) return true; out.pop_back();
  }
  return false;
}

// Everything of `pre` that is not on the path to the target must be found unchanged in `post`.
static bool outside_ok(const MVal& pre, const MVal& post, const Path& p, size_t i, std::string& why, const std::string& at) {
  if (i == p.size()) return true;            // the target itself may be anything well-formed
  if (pre.k == MVal::Null) return true;      // converted to a container by this write: everything below is new
  const Step& st = p[i];
  CmpOpt co;
  if (st.is_key ? pre.k != MVal::Obj : pre.k != MVal::Arr) {
    // the path cannot be followed: the write was unbound, nothing may change here
    if (!mv_equal(pre, post, co, &why, at)) return false;
    return true;
  }
  if (pre.k != post.k) { why = at + ": container on the path changed kind"; return false; }
  if (st.is_key) {
    if (post.o.size() < pre.o.size()) { why = at + ": members disappeared (" + std::to_string(pre.o.size()) + " -> " + std::to_string(post.o.size()) + ")"; return false; }
    bool followed = false;
    for (size_t j = 0; j < pre.o.size(); j++) {
      if (pre.o[j].first != post.o[j].first) { why = at + ": member key changed at position " + std::to_string(j); return false; }
      if (!followed && pre.o[j].first == st.key) { followed = true; if (!outside_ok(pre.o[j].second, post.o[j].second, p, i + 1, why, at + "." + printable(st.key, 20))) return false; }
      else if (!mv_equal(pre.o[j].second, post.o[j].second, co, &why, at + "." + printable(pre.o[j].first, 20))) return false;
    }
  } else {
    if (post.a.size() < pre.a.size()) { why = at + ": elements disappeared"; return false; }
    for (size_t j = 0; j < pre.a.size(); j++) {
      if (j == st.index) { if (!outside_ok(pre.a[j], post.a[j], p, i + 1, why, at + "[" + std::to_string(j) + "]")) return false; }
      else if (!mv_equal(pre.a[j], post.a[j], co, &why, at + "[" + std::to_string(j) + "]")) return false;
    }
  }
  return true;
}

struct Run {
  Ctx& c; Rng r; Model m; AjExec x; HistOpt ho; Schedule sched; std::vector<std::string> log; bool failed = false;
  uint64_t reached_failures = 0, steps_after_failure = 0;
  Run(Ctx& ctx, uint64_t seed, uint64_t index, const HistOpt& h, const Schedule& s) : c(ctx), r(seed, 5, index), m(h.ndocs, h.nrefs), x(h.ndocs, h.nrefs, true), ho(h), sched(s) { x.rng = &r; }
  SpyAllocator& al() { return *x.allocs[0]; }

  std::string witness() {
    std::string w = "schedule: " + sched.str() + "; ";
    size_t from = log.size() > 12 ? log.size() - 12 : 0;
    if (from) w += "(" + std::to_string(from) + " earlier steps) ";
    for (size_t i = from; i < log.size(); i++) w += "#" + std::to_string(i) + " " + log[i] + "; ";
    return w;
  }
  void viol(const std::string& cl, const std::string& de) { failed = true; c.violation(cl, de, witness()); }

  bool wellformed(size_t d, MVal& out) {
    Inspector::Snap s = Inspector::inspect(*x.docs[d], x.docs[d]->overflowed());
    if (!s.ok) { viol("structure-after-failure", "doc" + std::to_string(d) + ": " + s.error); return false; }
    ExtractState es; ExtractOpt eo; eo.max_nodes = 200000;
    out = extract(*x.docs[d], &es, eo);
    if (es.overflow) { viol("document-not-traversable", "doc" + std::to_string(d)); return false; }
    if (es.cstr_unterminated) viol("cstr-not-terminated", "doc" + std::to_string(d));
    return true;
  }

  bool step(const Op& o) {
    log.push_back(op_str(o));
    // pre-state and absolute target path
    std::vector<MVal> pre = m.docs;
    int td = m.target_doc(o.t);
    Path abs; bool have_abs = true;
    if (o.t.ref >= 0) { MVal* b = m.ref_node(o.t.ref); if (!b || !path_of_id(m.docs[(size_t)td], b->id, abs)) have_abs = false; }
    abs.insert(abs.end(), o.t.path.begin(), o.t.path.end());
    bool doc_level = o.k == OpK::DocCopy || o.k == OpK::DocMove || o.k == OpK::DocSwap || o.k == OpK::DocSetDoc || o.k == OpK::DocClear || o.k == OpK::DocToArray || o.k == OpK::DocShrink;
    std::vector<bool> was_ovf; for (auto& d : x.docs) was_ovf.push_back(d->overflowed());
    uint64_t f0 = al().failures_injected;
    Outcome exp = model_apply(m, o);
    Report rep; rep.violation = [&](const std::string& cl, const std::string& de) { viol(cl, de); };
    x.apply(o, exp, m, rep);
    for (size_t i = 0; i < m.refs.size(); i++) if (!m.refs[i].live) x.refs[i] = AJ::JsonVariant();
    if (failed) return false;
    bool failed_now = al().failures_injected > f0;
    if (failed_now) {
      reached_failures++;
      c.count("ops_with_injected_failure");
      // the affected operation reports the failure ...
      bool reported = true; std::string how;
      if (x.last_has_ret) { reported = !x.last_ret; how = "returned true"; }
      else if (x.last_has_bound) { reported = !x.last_bound; how = "returned a bound reference"; }
      else if (x.last_code >= 0) { reported = x.last_code == (int)AJ::DeserializationError::NoMemory || (!o.text_valid && x.last_code != 0) /* an invalid input may be rejected for its syntax first */; how = std::string("returned ") + err_name(AJ::DeserializationError((AJ::DeserializationError::Code)x.last_code)); }
      if (!reported) {
        // to<T>() on a creating path: the path creation failed => unbound; a bound result means the failure hit elsewhere (not possible: to<> allocates only for the path)
        viol("failure-not-reported", std::string(opk_name(o.k)) + " " + how + " although the allocator returned null during the call");
      }
      // ... and overflowed() becomes true on the document that was being modified
      int od = (o.k == OpK::DocCopy || o.k == OpK::DocSetDoc) ? o.t.doc : td;
      if (!x.docs[(size_t)od]->overflowed()) viol("overflowed-not-set", std::string(opk_name(o.k)) + ": overflowed() is false after the allocator returned null during the call");
    } else if (reached_failures) steps_after_failure++;
    // judge the state
    bool any_ovf = false;
    for (size_t d = 0; d < x.docs.size(); d++) any_ovf = any_ovf || x.docs[d]->overflowed();
    if (o.k == OpK::DeserJson || o.k == OpK::DeserMsgPack) {
      // model takes the library's values after a deserialization (floats), as in C04
      MVal* n = m.resolve_read(o.t);
      if (n && exp.bound && !x.docs[(size_t)td]->overflowed()) {
        AJ::JsonVariantConst v; x.at(o.t, false, [&](auto&& p) { v = p.template as<AJ::JsonVariantConst>(); });
        MVal y = extract(v);
        if (!exp.resync && x.last_code == 0) { CmpOpt co; co.mode = Cmp::Tol; co.tol_rel = kUseDouble ? 1e-6 : 1e-5; std::string why; if (!mv_equal(*n, y, co, &why)) viol("deserialized-value-differs", why); }
        m.put(*n, y); m.sweep();
      }
    }
    for (size_t d = 0; d < x.docs.size(); d++) {
      MVal post;
      if (!wellformed(d, post)) return false;
      if (x.docs[d]->overflowed()) {
        c.count("states_judged_after_failure");
        // values outside the path being modified are unchanged
        std::string why;
        bool is_target = (int)d == td || ((o.k == OpK::DocSwap || o.k == OpK::DocMove) && (int)d == o.aux);
        if (!is_target || o.k == OpK::Probe || o.k == OpK::AcquireRef || o.k == OpK::DropRef) {
          CmpOpt co;
          if (!mv_equal(pre[d], post, co, &why)) { viol("unrelated-document-changed", "doc" + std::to_string(d) + " " + why); return false; }
        } else if (!doc_level && have_abs && o.k != OpK::Remove && o.k != OpK::RemoveIter && o.k != OpK::ClearCollection) {
          if (was_ovf[d] || failed_now) {
            if (!outside_ok(pre[d], post, abs, 0, why, "$")) { viol("value-outside-modified-path-changed", "doc" + std::to_string(d) + " target " + path_str(abs) + ": " + why + " | before " + describe(pre[d], 200) + " | after " + describe(post, 200)); return false; }
          }
        } else if (o.k == OpK::Remove || o.k == OpK::RemoveIter || o.k == OpK::ClearCollection) {
          // removals never allocate: exact model
          CmpOpt co;
          if (!mv_equal(m.docs[d], post, co, &why)) { viol("removal-differs-from-model", "doc" + std::to_string(d) + " " + why); return false; }
        }
        // resynchronise the model with the (possibly partial) document; references into it are dropped
        m.kill_refs_of_doc((int)d);
        for (size_t i = 0; i < m.refs.size(); i++) if (!m.refs[i].live) x.refs[i] = AJ::JsonVariant();
        m.put(m.docs[d], post);
      } else {
        CmpOpt co; std::string why;
        if (!mv_equal(m.docs[d], post, co, &why)) { viol("document-differs-from-model", "doc" + std::to_string(d) + " (not overflowed) " + why + " | library has " + describe(post, 200)); return false; }
      }
    }
    if (!al().errors.empty()) { viol("allocator-protocol", al().errors[0]); return false; }
    return !failed;
  }

  // clear() returns every block, and the documents work normally once allocation succeeds again
  void finale() {
    for (auto& d : x.docs) d->clear();
    for (auto& rf : x.refs) rf = AJ::JsonVariant();
    if (!al().live.empty()) viol("blocks-live-after-clear", std::to_string(al().live.size()) + " blocks still held after clear() of every document");
    for (auto& d : x.docs) if (d->overflowed()) viol("overflowed-after-clear", "overflowed() still true after clear()");
    al().no_failures();
    Model fresh(ho.ndocs, ho.nrefs); m = fresh;
    HistOpt h2 = ho; h2.doc_ops = true;
    log.push_back("-- clear() of every document; failures off --");
    for (int i = 0; i < 25 && !failed; i++) {
      Op o = gen_op(r, h2, m);
      adapt_op(o);
      if (!step(o)) break;
      for (size_t d = 0; d < x.docs.size(); d++) if (x.docs[d]->overflowed()) { viol("overflow-after-recovery", "doc" + std::to_string(d) + " overflowed() without any allocation failure after clear()"); break; }
    }
    c.count("recovery_histories");
    x.docs.clear();
    if (!al().live.empty()) viol("leak-after-destruction", std::to_string(al().live.size()) + " blocks still live after destruction");
    if (!al().errors.empty()) viol("allocator-protocol", al().errors[0]);
  }
};

static HistOpt scenario_opt(Rng& r) {
  HistOpt ho;
  ho.ndocs = (int)r.range(1, 2); ho.nrefs = 4; ho.key_pool = (int)r.range(2, 6); ho.max_nodes = 60; ho.alias_assign = false; ho.float32_only = !kUseDouble;
  return ho;
}

// One history scenario under one schedule. Returns the number of failable calls seen.
static uint64_t run_history(Ctx& c, uint64_t index, const Schedule& s, int steps, uint64_t upto, bool& reached, uint64_t& after) {
  Rng pr(c.seed, 50, index);
  HistOpt ho = scenario_opt(pr);
  Run run(c, c.seed, index, ho, s);
  arm(run.al(), s, upto);
  for (int i = 0; i < steps; i++) {
    Op o = gen_op(run.r, run.ho, run.m);
    adapt_op(o);
    if (!run.step(o)) break;
  }
  uint64_t n = run.al().failable_calls;
  reached = run.reached_failures > 0; after = run.steps_after_failure;
  if (!run.failed) run.finale();
  return n;
}

// Deserialization scenario: one input (JSON or MessagePack, optional filter) parsed under a schedule.
static uint64_t run_deser(Ctx& c, uint64_t index, const Schedule& s, uint64_t upto, bool& reached) {
  Rng r(c.seed, 51, index);
  GenOpt g; g.max_depth = (int)r.range(1, 4); g.max_width = 5; g.budget = 40; g.dup_keys = r.chance(1, 4); g.long_str = r.chance(1, 6) ? 200 : 0;
  MVal v = gen_value(r, g);
  bool json = r.coin();
  std::string input;
  if (json) { respell_floats(v, r); RenderOpt ro; ro.escape_weight = 2; ro.random_ws = r.coin(); input = render_json(v, ro, &r); }
  else { MpEncOpt eo; eo.minimal = r.coin(); input = mp_encode(dedup_last_wins(v), eo, &r); }
  bool use_filter = r.chance(1, 3);
  GenOpt fg; fg.max_depth = 2; fg.max_width = 3; fg.budget = 8; fg.allow_float = false;
  MVal fv = gen_value(r, fg);
  if (r.coin()) { MVal t = MVal::obj(); t.o.emplace_back("*", MVal::boolean(true)); t.o.emplace_back("a", fv); fv = t; }
  std::string wit = "schedule: " + s.str() + "; " + (json ? "deserializeJson " : "deserializeMsgPack ") + (json ? printable(input, 300) : hexs(input.substr(0, 150))) + (use_filter ? " filter=" + describe(fv, 100) : "");
  SpyAllocator al;
  uint64_t nn = 0;
  {
    AJ::JsonDocument filter;   // default allocator: the filter is not the object under test
    if (use_filter) build(filter.to<AJ::JsonVariant>(), fv);
    AJ::JsonDocument doc(&al);
    // dirty destination, built before failures start
    build(doc.to<AJ::JsonVariant>(), v);
    uint64_t base = al.failable_calls;
    Schedule s2 = s; if (s2.kind == 1 || s2.kind == 2) s2.k += base;
    arm(al, s2, upto + base);
    if (s.kind == 3) { al.fail_at.clear(); Rng rr(s.rseed, 56, 0); for (uint64_t i = base + 1; i <= base + upto + 50; i++) if (rr.below(100) < s.pnum) al.fail_at.insert(i); }
    uint64_t f0 = al.failures_injected;
    char* in = (char*)malloc(input.size() ? input.size() : 1); memcpy(in, input.data(), input.size());
    AJ::DeserializationError err;
    auto nl = AJ::DeserializationOption::NestingLimit(20);
    if (json) err = use_filter ? AJ::deserializeJson(doc, (const char*)in, input.size(), AJ::DeserializationOption::Filter(filter.as<AJ::JsonVariantConst>()), nl) : AJ::deserializeJson(doc, (const char*)in, input.size(), nl);
    else err = use_filter ? AJ::deserializeMsgPack(doc, (const char*)in, input.size(), AJ::DeserializationOption::Filter(filter.as<AJ::JsonVariantConst>()), nl) : AJ::deserializeMsgPack(doc, (const char*)in, input.size(), nl);
    free(in);
    bool failed_now = al.failures_injected > f0;
    reached = failed_now;
    if (failed_now) {
      c.count("ops_with_injected_failure");
      if (err != AJ::DeserializationError::NoMemory) c.violation("failure-not-reported", std::string("deserialize returned ") + err_name(err) + " although the allocator returned null during the call", wit);
      if (!doc.overflowed()) c.violation("overflowed-not-set", "overflowed() false after a failed allocation during deserialization", wit);
    } else if (err != AJ::DeserializationError::Ok) c.violation("valid-input-rejected", std::string("returned ") + err_name(err) + " without any allocation failure", wit);
    Inspector::Snap sn = Inspector::inspect(doc, doc.overflowed());
    if (!sn.ok) c.violation("structure-after-failure", sn.error, wit);
    else {
      ExtractState es; MVal y = extract(doc, &es);
      if (es.overflow) c.violation("document-not-traversable", "after deserialization under failure", wit);
      std::string s1; AJ::serializeJson(doc, s1);
    }
    uint64_t n = al.failable_calls - base;
    // clear, recover
    doc.clear();
    if (!al.live.empty()) c.violation("blocks-live-after-clear", std::to_string(al.live.size()) + " blocks still held after clear()", wit);
    al.no_failures();
    if (doc.overflowed()) c.violation("overflowed-after-clear", "overflowed() still true after clear()", wit);
    if (!build(doc.to<AJ::JsonVariant>(), dedup_last_wins(v)) && within_capacity(v)) c.violation("unusable-after-clear", "rebuilding the document after clear() failed although allocation works again", wit);
    else if (within_capacity(v)) {
      MVal y = extract(doc); CmpOpt co; std::string why; MVal e = stored_form(dedup_last_wins(v));
      // float literals carry spelling in .s; compare by value
      co.mode = Cmp::ByValue;
      if (!mv_equal(e, y, co, &why)) c.violation("wrong-content-after-recovery", why, wit);
    }
    c.count("recovery_histories");
    if (!al.errors.empty()) c.violation("allocator-protocol", al.errors[0], wit);
    nn = n;
    if (c.want_sample() && s.kind == 1) c.sample(wit);
  }
  if (!al.live.empty()) c.violation("leak-after-destruction", std::to_string(al.live.size()) + " blocks still live after the document was destroyed", wit);
  return nn;
}

void vf_run_case(Ctx& c, uint64_t index) {
  Rng r(c.seed, 52, index);
  bool hist = c.mode == "hist";
  int steps = (int)r.range(4, 30);
  Schedule none;
  bool reached = false; uint64_t after = 0;
  uint64_t N = hist ? run_history(c, index, none, steps, 0, reached, after) : run_deser(c, index, none, 0, reached);
  c.count("scenarios");
  c.maxcount("max_failable_calls", N);
  uint64_t cap = c.tier ? 120 : 60;
  uint64_t runs = 1, reached_runs = 0, continued = 0;
  std::vector<Schedule> plan;
  // every position when N is small, an even sample of positions (always including the first and last) otherwise
  std::vector<uint64_t> ks;
  if (N <= cap) for (uint64_t k = 1; k <= N; k++) ks.push_back(k);
  else { for (uint64_t i = 0; i < cap; i++) ks.push_back(1 + (i * (N - 1)) / (cap - 1)); }
  for (uint64_t k : ks) { Schedule s; s.kind = 1; s.k = k; plan.push_back(s); s.kind = 2; plan.push_back(s); }
  for (int i = 0; i < 4; i++) { Schedule s; s.kind = 3; s.pnum = i < 2 ? 5 : 30; s.rseed = r.next(); plan.push_back(s); }
  if (N <= cap) c.count("scenarios_with_every_position_enumerated");
  for (auto& s : plan) {
    bool re = false; uint64_t af = 0;
    if (hist) run_history(c, index, s, steps, N, re, af); else run_deser(c, index, s, N, re);
    runs++;
    if (re) { reached_runs++; c.distinct("nontrivial", mix3(index, (uint64_t)s.kind, s.k ^ s.rseed)); }
    if (af) continued++;
  }
  c.count("faulted_runs", runs - 1);
  c.count("faulted_runs_reaching_failure", reached_runs);
  c.count("faulted_runs_continuing_after_failure", continued);
  c.outcome(hist ? "history-scenario" : "deser-scenario");
  if (hist && c.want_sample()) c.sample("history scenario of " + std::to_string(steps) + " steps, N=" + std::to_string(N) + " failable allocator calls, " + std::to_string(plan.size()) + " schedules");
}
