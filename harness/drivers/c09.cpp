// C09 Well-formed MessagePack decodes to the value it encodes; malformed is classified.
#include <float.h>
#include "../aj/extract.hpp"
#include "../aj/spy_alloc.hpp"
#include "../common/driver_main.hpp"
#include "../common/gen_value.hpp"
#include "../common/refmsgpack.hpp"

using namespace vf;

uint64_t vf_total(const std::string&) { return 0; }

// expected (decoded by the reference) vs extracted document
static bool c09_equal(const MVal& m, const MVal& y, std::string& why, const std::string& path) {
  auto fail = [&](const std::string& w) { if (why.empty()) why = path + ": " + w; return false; };
  if (m.k == MVal::Float) {
    if (y.k != MVal::Float) return fail("float " + describe(m) + " decoded as " + describe(y, 60));
    double x = m.f, g = y.f;
    if (x != x) return g != g ? true : fail("NaN decoded as " + describe(y));
    if (kUseDouble) return bits_equal(x, g) || x == g ? (x == g ? true : fail("float value differs")) : fail("float " + describe(m) + " decoded as " + describe(y));
    // 32-bit JsonFloat: rounded to float (either neighbour, don't-care 11); out of range => inf / 0
    float lo = (float)x, hi = lo;
    if ((double)lo > x) lo = nextafterf(lo, -INFINITY); else if ((double)hi < x) hi = nextafterf(hi, INFINITY);
    if (std::isinf(x)) return g == x ? true : fail("infinity decoded as " + describe(y));
    if (fabs(x) > (double)FLT_MAX) return (std::isinf(g) && (g > 0) == (x > 0)) || (float)g == (x > 0 ? FLT_MAX : -FLT_MAX) ? true : fail("double above FLT_MAX " + describe(m) + " decoded as " + describe(y) + " (expected infinity)");
    if (fabs(x) < (double)FLT_MIN) return fabs(g) <= (double)FLT_MIN ? true : fail("double below FLT_MIN " + describe(m) + " decoded as " + describe(y) + " (expected zero or a subnormal)");
    if (g == (double)lo || g == (double)hi) return true;
    return fail("double " + describe(m) + " decoded as " + describe(y) + ", not a neighbouring float");
  }
#if !ARDUINOJSON_USE_LONG_LONG
  // 32-bit integer storage (on this LP64 host JsonInteger is still 64-bit wide, so the range is enforced by the store):
  // a value outside int32 decodes to itself (unsigned formats up to 2^32-1) or to null, never to another number
  if (m.k == MVal::Int && !(m.neg ? m.mag <= 0x80000000ull : m.mag <= 0x7fffffffull)) {
    if (y.k == MVal::Null || (y.k == MVal::Int && y.neg == m.neg && y.mag == m.mag)) return true;
    return fail("integer " + describe(m) + " outside the configured 32-bit range decoded as " + describe(y, 60) + " (expected the exact value or null)");
  }
#endif
  if (m.k != y.k) return fail("kind differs: expected " + describe(m, 60) + " got " + describe(y, 60));
  switch (m.k) {
    case MVal::Arr:
      if (m.a.size() != y.a.size()) return fail("array size " + std::to_string(y.a.size()) + ", expected " + std::to_string(m.a.size()));
      for (size_t i = 0; i < m.a.size(); i++) if (!c09_equal(m.a[i], y.a[i], why, path + "[" + std::to_string(i) + "]")) return false;
      return true;
    case MVal::Obj:
      if (m.o.size() != y.o.size()) return fail("map size " + std::to_string(y.o.size()) + ", expected " + std::to_string(m.o.size()));
      for (size_t i = 0; i < m.o.size(); i++) {
        if (m.o[i].first != y.o[i].first) return fail("entry key/order differs at position " + std::to_string(i));
        if (!c09_equal(m.o[i].second, y.o[i].second, why, path + "." + printable(m.o[i].first, 30))) return false;
      }
      return true;
    default: { CmpOpt co; return mv_equal(m, y, co, &why, path); }
  }
}

static const char* mperr_name(MpErr e) { switch (e) { case MpErr::Ok: return "Ok"; case MpErr::Incomplete: return "Incomplete"; case MpErr::Reserved: return "Reserved(0xC1)"; case MpErr::BadKey: return "NonStringKey"; default: return "TooDeep"; } }

static AJ::DeserializationError parse(AJ::JsonDocument& doc, const std::string& bytes, uint8_t limit) {
  char* in = (char*)malloc(bytes.size() ? bytes.size() : 1); memcpy(in, bytes.data(), bytes.size());
  auto err = AJ::deserializeMsgPack(doc, (const char*)in, bytes.size(), AJ::DeserializationOption::NestingLimit(limit));
  free(in);
  return err;
}

void vf_run_case(Ctx& c, uint64_t index) {
  Rng r(c.seed, 9, index);
  GenOpt g; g.str_mode = (int)r.below(3); g.allow_binext = true; g.allow_nonfinite = true; g.wide_floats = true; g.dup_keys = true;
  g.max_depth = (int)r.range(0, 7); g.max_width = (int)r.range(0, 18);
  if (r.chance(1, 30)) g.long_str = std::min<size_t>(kMaxStringLength, 70000);
  MVal model;
  unsigned shape = (unsigned)r.below(20);
  bool binext_only = false;
  if (r.chance(1, 60)) {
    // wide containers: element counts beyond what one / two length bytes hold (counts are bounded by slot ids, not by the string-length width)
    size_t n = (r.chance(1, 6) && c.mode == "decode") ? (size_t)r.range(65530, 65800) : (size_t)r.range(250, 300);   /* (prefix and corruption modes run every cut of the input: moderate widths only) */
    if (n + 4 > kMaxSlots) n = kMaxSlots > 300 ? 280 : kMaxSlots / 4;
    bool as_map = n < 1000 && 2 * n + 4 <= kMaxSlots && r.coin();
    if (as_map) { model = MVal::obj(); for (size_t i = 0; i < n; i++) model.o.emplace_back("k" + std::to_string(i), MVal::uint(i & 0x7f)); }
    else { model = MVal::arr(); for (size_t i = 0; i < n; i++) model.a.push_back(MVal::uint(i & 0x7f)); }
    c.count("wide_containers");
  }
  else if (shape == 0) model = gen_chain(r, (int)r.range(1, 60), (int)r.below(3));
  else if (shape == 1) {  // bin/ext retained byte for byte: a (minimal-header) array of bin/ext values, or a single one
    binext_only = true;
    GenOpt gb = g;
    auto one = [&]() { MVal v; do { v = gen_scalar(r, gb); } while (v.k != MVal::Bin && v.k != MVal::Ext); return v; };
    if (r.coin()) model = one(); else { model = MVal::arr(); size_t n = (size_t)r.range(0, 20); for (size_t i = 0; i < n; i++) model.a.push_back(one()); }
  } else model = gen_value(r, g);
  MpEncOpt eo; eo.minimal = r.chance(1, 4);
  std::string bytes;
  if (binext_only && model.k == MVal::Arr) {  // minimal array header, random element headers
    MpEncOpt em; bytes = mp_encode(MVal::arr(), em); bytes.clear();
    size_t n = model.a.size();
    if (n < 16) bytes += (char)(0x90 | n); else { bytes += (char)0xdc; be_put(bytes, n, 2); }
    for (auto& e : model.a) mp_encode_into(e, bytes, eo, &r);
  } else bytes = mp_encode(model, eo, &r);
  // the value as a correct decoder sees it (also fixes the reference's own view of float32 etc.)
  MVal expected; MpDecodeResult rr = mp_decode(bytes, expected);
  if (rr.err != MpErr::Ok || rr.pos != bytes.size()) { c.violation("harness-self-check", "reference decoder rejects the reference encoder's output", describe(model, 200)); return; }
  if (!within_capacity(expected)) { c.outcome("over-capacity"); return; }
  uint8_t limit = (uint8_t)std::min<size_t>(255, expected.nesting() + r.below(3));
  std::string wit = "limit=" + std::to_string(limit) + " bytes=" + hexs(bytes.substr(0, 200)) + (bytes.size() > 200 ? "...(" + std::to_string(bytes.size()) + ")" : "") + "  value=" + describe(expected, 300);
  if (c.want_sample()) c.sample(wit);
  c.nontrivial(fnv1a(bytes));

  if (c.mode == "decode") {
    SpyAllocator sa;
    {
      AJ::JsonDocument doc(&sa);
      if (r.coin()) { GenOpt pg; build(doc.to<AJ::JsonVariant>(), gen_value(r, pg)); }  // dirty destination
      auto err = parse(doc, bytes, limit);
      if (!err_in_enum(err)) c.violation("code-out-of-enum", "return value outside the documented codes", wit);
      if (err != AJ::DeserializationError::Ok) { c.violation("well-formed-rejected", std::string("deserializeMsgPack returned ") + err_name(err) + " for a well-formed object within limits", wit); c.outcome(std::string("rejected:") + err_name(err)); }
      else {
        ExtractState es; MVal y = extract(doc, &es); std::string why;
        if (es.overflow) c.violation("document-not-traversable", "traversal does not end", wit);
        else if (!c09_equal(expected, y, why, "$")) c.violation("value-differs", why, wit + "  got=" + describe(y, 300));
        if (doc.nesting() > limit) c.violation("nesting-above-limit", "nesting() > limit after Ok", wit);
        if (binext_only) {
          std::string again; AJ::serializeMsgPack(doc, again);
          if (again != bytes) c.violation("binext-not-reproduced", "serializeMsgPack does not reproduce the bin/ext values byte for byte: " + hexs(again.substr(0, 100)), wit);
          c.count("binext_reserialized");
        }
        c.outcome("decoded");
      }
    }
    if (!sa.live.empty()) c.violation("leak-after-destruction", std::to_string(sa.live.size()) + " blocks live after destruction", wit);
    if (!sa.errors.empty()) c.violation("allocator-protocol", sa.errors[0], wit);
    return;
  }

  if (c.mode == "prefix") {
    std::vector<size_t> lens;
    if (bytes.size() <= 300) for (size_t n = 0; n < bytes.size(); n++) lens.push_back(n);
    else { lens = {0, 1, 2, bytes.size() - 1, bytes.size() - 2}; for (int i = 0; i < 40; i++) lens.push_back((size_t)r.below(bytes.size())); }
    AJ::JsonDocument doc;
    for (size_t n : lens) {
      auto err = parse(doc, bytes.substr(0, n), limit);
      auto want = n == 0 ? AJ::DeserializationError::EmptyInput : AJ::DeserializationError::IncompleteInput;
      c.count("prefixes_checked");
      if (err != want) { c.violation("prefix-misclassified", "prefix of " + std::to_string(n) + " bytes gives " + err_name(err) + ", expected " + err_name(want), wit); break; }
      // the document can be traversed, serialized, cleared and reused afterwards
      { std::string s1; AJ::serializeJson(doc, s1); ExtractState es; extract(doc, &es); if (es.overflow) { c.violation("document-not-traversable", "after a truncated input", wit); break; } }
      doc.clear(); doc["k"] = 1; if (doc["k"] != 1) { c.violation("unusable-after-error", "document cannot be reused after a truncated input", wit); break; }
    }
    c.outcome("prefix-set");
    return;
  }

  // mode "corrupt": single-byte corruptions, classification by the reference decoder's first error
  SpyAllocator heap; heap.fail_above_size = 8u << 20;  // a finite heap: corrupted length fields may announce gigabytes
  AJ::JsonDocument doc(&heap);
  for (int k = 0; k < 24 && !bytes.empty(); k++) {
    std::string b = bytes;
    size_t pos = (size_t)r.below(b.size());
    static const unsigned char interesting[] = {0xc1, 0xc0, 0x90, 0x80, 0xa0, 0xdc, 0xdd, 0xde, 0xdf, 0xc4, 0xc6, 0xd9, 0xdb, 0xca, 0xcb, 0xff, 0x00, 0xc7, 0xd4};
    b[pos] = r.coin() ? (char)r.pick(interesting) : (char)r.below(256);
    MVal ev; MpDecOpt dopt; dopt.max_depth = limit; dopt.max_items = 2000000;
    MpDecodeResult er = mp_decode(b, ev, dopt);
    auto err = parse(doc, b, limit);
    std::string w2 = "corrupted byte " + std::to_string(pos) + " -> " + hexs(b.substr(pos, 1)) + "; " + wit;
    c.count("corruptions_checked");
    c.outcome(std::string("ref:") + mperr_name(er.err));
    if (!err_in_enum(err)) { c.violation("code-out-of-enum", "return value outside the documented codes", w2); break; }
    bool ok = true; std::string want;
    switch (er.err) {
      case MpErr::Ok:
        want = "Ok";
        if (err == AJ::DeserializationError::NoMemory && !within_capacity(ev)) break;
        ok = err == AJ::DeserializationError::Ok;
        if (ok) { MVal y = extract(doc); std::string why; if (!c09_equal(ev, y, why, "$")) { c.violation("value-differs", why, w2); } }
        break;
      case MpErr::Reserved: case MpErr::BadKey: want = "InvalidInput"; ok = err == AJ::DeserializationError::InvalidInput || (err == AJ::DeserializationError::NoMemory); break;
      case MpErr::Incomplete: want = "IncompleteInput"; ok = err == AJ::DeserializationError::IncompleteInput || err == AJ::DeserializationError::NoMemory || (b.empty() && err == AJ::DeserializationError::EmptyInput); break;
      case MpErr::TooDeep: want = "TooDeep"; ok = err == AJ::DeserializationError::TooDeep || err == AJ::DeserializationError::NoMemory; break;
    }
    // NoMemory is tolerated for corrupted inputs only when a length/count in the input exceeds the configured capacity;
    // for the Reserved/BadKey classes it must not mask the error when everything before the offending byte fits
    if (ok && err == AJ::DeserializationError::NoMemory && er.err != MpErr::Ok) {
      MVal partial; std::string pre = b.substr(0, er.pos); (void)partial;
      bool huge = false;
      for (size_t i = 0; i < b.size() && i < er.pos + 8; i++) { unsigned char h = (unsigned char)b[i]; if (h == 0xdb || h == 0xc6 || h == 0xc9 || h == 0xdd || h == 0xdf || h == 0xda || h == 0xc5 || h == 0xc8) huge = true; }
      if (!huge && kMaxStringLength >= 65535) ok = false;
    }
    if (!ok) { c.violation("corruption-misclassified", std::string("library returned ") + err_name(err) + ", reference decoder says " + mperr_name(er.err) + " at byte " + std::to_string(er.pos) + " (expected " + want + ")", w2); break; }
    // document stays usable
    std::string s1; AJ::serializeJson(doc, s1);
    doc.clear(); doc["k"] = 1;
    if (doc["k"] != 1) { c.violation("unusable-after-error", "document cannot be reused", w2); break; }
  }
}
