// C14 How a string is stored (linked, copied, de-duplicated) is unobservable.
// The same history is replayed in lock-step on three sets of documents that differ only in the
// C++ type through which every string (value, key, lookup key) is handed to the library.
#include "../aj/apply.hpp"
#include "../common/driver_main.hpp"

using namespace vf;

uint64_t vf_total(const std::string&) { return 0; }

// everything observable about one value except JsonString::isLinked()
static std::string obs(AJ::JsonVariantConst v) {
  std::string o; char b[96];
  auto add = [&](const char* n, const std::string& x) { o += n; o += '='; o += x; o += ';'; };
  add("unbound", v.isUnbound() ? "1" : "0"); add("null", v.isNull() ? "1" : "0");
  std::string j, m; AJ::serializeJson(v, j); AJ::serializeMsgPack(v, m); add("json", j); add("msgpack", hexs(m));
  add("size", std::to_string(v.size())); add("nesting", std::to_string(v.nesting()));
  snprintf(b, sizeof b, "%d%d%d%d%d%d%d%d%d%d%d%d%d%d", v.is<bool>(), v.is<signed char>(), v.is<unsigned char>(), v.is<short>(), v.is<int>(), v.is<unsigned>(), v.is<long long>(), v.is<unsigned long long>(),
           v.is<float>(), v.is<double>(), v.is<const char*>(), v.is<AJ::JsonString>(), v.is<std::string>(), v.is<AJ::JsonArrayConst>()); add("is", b);
  snprintf(b, sizeof b, "%d,%d,%u,%lld,%llu", (int)v.as<bool>(), v.as<int>(), v.as<unsigned>(), v.as<long long>(), v.as<unsigned long long>()); add("asint", b);
  snprintf(b, sizeof b, "%d,%d,%d,%u", (int)v.as<signed char>(), (int)v.as<unsigned char>(), (int)v.as<short>(), (unsigned)v.as<unsigned short>()); add("asnarrow", b);
  { float f = v.as<float>(); double d = v.as<double>(); uint32_t fb; uint64_t db; memcpy(&fb, &f, 4); memcpy(&db, &d, 8); if (f != f) fb = 0x7fc00000; if (d != d) db = 0x7ff8000000000000ull; snprintf(b, sizeof b, "%08x,%016llx", fb, (unsigned long long)db); add("asfloat", b); }
  AJ::JsonString js = v.as<AJ::JsonString>();
  add("str", js.isNull() ? "(null)" : hexs(std::string(js.c_str(), js.size())));
  add("stdstr", hexs(v.as<std::string>()));
  const char* p = v.as<const char*>(); add("cstr", p ? hexs(std::string(p)) : "(null)");
  snprintf(b, sizeof b, "%d%d%d%d%d%d%d%d", v == "abc", v < "m", v > "", v == 42, v < 3.5, v == std::string("42"), v != "hello", v >= AJ::JsonString("3.14")); add("cmp", b);
  snprintf(b, sizeof b, "%d,%s", v | 7, v | "dflt"); add("or", b);
  return o;
}


static const uint8_t ROT[] = {SK_CHARPTR, SK_CHARARRAY, SK_STRING_VIEW, SK_JSONSTRING_COPIED, SK_JSONSTRING_LINKED, SK_STD,
#ifdef VF_ARDUINO_SHIM
                              SK_FLASH, SK_ARDUINO_STRING, SK_FLASH, SK_ARDUINO_STRING,
#endif
                              SK_CHARPTR, SK_STRING_VIEW};

// Mode "sharing": hundreds (occasionally tens of thousands) of values share one copied string; users are then changed and
// removed one by one - the others must stay intact, in lock-step with a replay that uses linked strings.
static void sharing_case(Ctx& c, uint64_t index) {
  Rng r(c.seed, 141, index);
  static const char* pool[] = {"shared", "", "x", "a longer shared string value", "42"};
  size_t n = (size_t)r.range(2, 700);
  if (r.chance(1, 150) && kMaxSlots > 70000) n = (size_t)r.range(65530, 66100);   // beyond 16-bit counters
  if (n + 8 > kMaxSlots) n = kMaxSlots - 8;
  std::string s1 = r.pick(pool), s2 = std::string(r.pick(pool)) + "#";
  StringArena arena;
  AJ::JsonDocument A, B, C;
  std::vector<MVal> model;
  bool as_keys = r.chance(1, 4) && n < 300;
  for (size_t i = 0; i < n; i++) {
    const std::string& s = r.chance(1, 8) ? s2 : s1;
    uint8_t rot = ROT[(index + i) % (sizeof ROT)];
    if (as_keys) {
      // the shared string is the value of many members AND (once) a key
      std::string k = i == 0 ? s1 : "k" + std::to_string(i);
      set_string_kind(A[k], s, SK_LINKED_CSTR, arena); set_string_kind(B[k], s, SK_STD, arena); set_string_kind(C[k], s, rot, arena);
    } else {
      AJ::JsonVariant a = A.add<AJ::JsonVariant>(), b = B.add<AJ::JsonVariant>(), cc = C.add<AJ::JsonVariant>();
      set_string_kind(a, s, SK_LINKED_CSTR, arena); set_string_kind(b, s, SK_STD, arena); set_string_kind(cc, s, rot, arena);
    }
    model.push_back(MVal::str(s));
  }
  // half of the time the third replay is filled by a deserializer instead of the API (each has its own string-sharing path)
  const char* cfill = "API, rotating string kinds";
  if (r.coin()) {
    std::string bytes; AJ::DeserializationError e;
    if (r.coin()) { AJ::serializeMsgPack(B, bytes); e = AJ::deserializeMsgPack(C, bytes.data(), bytes.size()); cfill = "deserializeMsgPack"; }
    else { AJ::serializeJson(B, bytes); e = AJ::deserializeJson(C, bytes.data(), bytes.size()); cfill = "deserializeJson"; }
    if (e) { c.violation("sharing-visible", std::string("re-reading the copied replay through ") + cfill + " returned " + err_name(e), std::to_string(n) + " values sharing \"" + s1 + "\""); return; }
    c.count("replays_filled_by_a_deserializer");
  }
  std::string wit = std::to_string(n) + " values sharing \"" + s1 + "\"" + (as_keys ? " (object members)" : " (array elements)") + ", third replay filled through " + cfill;
  if (c.want_sample()) c.sample(wit);
  c.nontrivial(mix3(index, n, fnv1a(s1)));
  auto compare = [&](const char* when) {
    for (AJ::JsonDocument* d : {&A, &B, &C}) { Inspector::Snap sn = Inspector::inspect(*d); if (!sn.ok) { c.violation("structure", std::string(when) + ": " + sn.error, wit); return false; } }
    std::string ja, jb, jc; AJ::serializeJson(A, ja); AJ::serializeJson(B, jb); AJ::serializeJson(C, jc);
    if (ja != jb || jb != jc) { c.violation("sharing-visible", std::string(when) + ": the linked and the copied replays serialize differently (" + std::to_string(ja.size()) + " / " + std::to_string(jb.size()) + " / " + std::to_string(jc.size()) + " bytes)", wit); return false; }
    if (!as_keys) {
      size_t i = 0;
      for (AJ::JsonVariantConst e : B.as<AJ::JsonArrayConst>()) {
        if (i >= model.size()) break;
        MVal y = extract(e); CmpOpt co;
        if (!mv_equal(model[i], y, co)) { c.violation("sharing-visible", std::string(when) + ": element " + std::to_string(i) + " reads " + describe(y, 60) + ", expected " + describe(model[i], 60), wit); return false; }
        i++;
      }
      if (i != model.size()) { c.violation("sharing-visible", std::string(when) + ": " + std::to_string(i) + " elements, expected " + std::to_string(model.size()), wit); return false; }
    }
    c.count("observation_vectors", 3);
    return true;
  };
  if (!compare("after building")) return;
  // a sized proper prefix of a string that already lives in the document, handed back to the same document as a value or a key
  if (!as_keys) {
    for (int k = 0; k < 3 && !model.empty() && model.size() + 4 < kMaxSlots / 2; k++) {
      size_t i = (size_t)r.below(model.size());
      if (model[i].k != MVal::Str || model[i].s.empty()) continue;
      size_t len = (size_t)r.below(model[i].s.size());
      std::string prefix = model[i].s.substr(0, len);
      unsigned how = (unsigned)r.below(3);
      for (AJ::JsonDocument* d : {&A, &B, &C}) {
        AJ::JsonString js = (*d)[i].as<AJ::JsonString>();
        if (how == 0) d->add(AJ::JsonString(js.c_str(), len, AJ::JsonString::Copied));
        else if (how == 1) d->add(std::string_view(js.c_str(), len));
        else { AJ::JsonObject o = d->add<AJ::JsonObject>(); o[std::string_view(js.c_str(), len)] = 1; }
      }
      if (how < 2) model.push_back(MVal::str(prefix)); else { MVal o = MVal::obj(); o.o.emplace_back(prefix, MVal::uint(1)); model.push_back(o); }
      c.count("aliased_prefixes");
    }
    if (!compare("after storing prefixes of the document's own strings")) return;
  }
  int ops = (int)r.range(3, 40);
  for (int k = 0; k < ops; k++) {
    if (as_keys) {
      std::string key = r.chance(1, 5) ? s1 : "k" + std::to_string(r.below(n));
      if (r.coin()) { A.remove(key); B.remove(key); C.remove(key); } else { A[key] = 7; B[key] = 7; C[key] = 7; }
    } else {
      if (model.empty()) break;
      size_t i = (size_t)r.below(model.size());
      unsigned w = (unsigned)r.below(3);
      if (w == 0) { A.remove(i); B.remove(i); C.remove(i); model.erase(model.begin() + (long)i); }
      else if (w == 1) { A[i] = (int)k; B[i] = (int)k; C[i] = (int)k; model[i] = MVal::sint(k); }
      else { set_string_kind(A[i], s2, SK_LINKED_CSTR, arena); set_string_kind(B[i], s2, SK_STD, arena); set_string_kind(C[i], s2, SK_STRING_VIEW, arena); model[i] = MVal::str(s2); }
    }
    if ((k & 3) == 3 || k + 1 == ops) if (!compare("after changing some users")) return;
  }
  c.outcome(n > 60000 ? "sharing-65536+" : "sharing");
}

void vf_run_case(Ctx& c, uint64_t index) {
  if (c.mode == "sharing") { sharing_case(c, index); return; }
  Rng r(c.seed, 14, index);
  HistOpt ho; ho.ndocs = (int)r.range(1, 2); ho.nrefs = 4; ho.key_pool = (int)r.range(2, 8); ho.max_nodes = 80; ho.numeric_strings_heavy = true; ho.deser = false; ho.binext = false; ho.float32_only = !kUseDouble;
  Model m(ho.ndocs, ho.nrefs);
  Rng rA(1), rB(1), rC(1);   // typed-setter choices must be identical in the three replays
  AjExec A(ho.ndocs, ho.nrefs), B(ho.ndocs, ho.nrefs), C(ho.ndocs, ho.nrefs);
  AjExec* X[3] = {&A, &B, &C}; Rng* RX[3] = {&rA, &rB, &rC};
  static const char* names[3] = {"A (const char*, linked)", "B (std::string)", "C (rotating copied kinds)"};
  for (int i = 0; i < 3; i++) { X[i]->exact_kinds = true; X[i]->rng = RX[i]; }
  std::vector<std::string> log; bool failed = false;
  auto witness = [&]() { std::string w; size_t from = log.size() > 12 ? log.size() - 12 : 0; for (size_t i = from; i < log.size(); i++) w += "#" + std::to_string(i) + " " + log[i] + "; "; for (size_t d = 0; d < m.docs.size(); d++) w += " model.doc" + std::to_string(d) + "=" + describe(m.docs[d], 200); return w; };
  auto viol = [&](const std::string& cl, const std::string& de) { failed = true; c.violation(cl, de, witness()); };
  int steps = (int)r.range(10, 120);
  for (int s = 0; s < steps && !failed; s++) {
    Op o = gen_op(r, ho, m);
    adapt_op(o);
    if (o.k == OpK::DocShrink && r.coin()) o.k = OpK::Probe;
    log.push_back(op_str(o));
    Outcome exp = model_apply(m, o);
    uint8_t rot = ROT[(index + (uint64_t)s) % (sizeof ROT)];
    for (int i = 0; i < 3 && !failed; i++) {
      Op oi = o;
      oi.strkind = i == 0 ? SK_LINKED_CSTR : i == 1 ? SK_STD : rot;
      oi.keykind = i == 0 ? 1 : i == 1 ? 0 : (uint8_t)(s & 1);
      Report rep; rep.violation = [&](const std::string& cl, const std::string& de) { viol(cl, std::string(names[i]) + ": " + de); };
      X[i]->apply(oi, exp, m, rep);
      for (size_t k = 0; k < m.refs.size(); k++) if (!m.refs[k].live) X[i]->refs[k] = AJ::JsonVariant();
    }
    c.outcome(std::string("op:") + opk_name(o.k));
    // each replay equals the model ...
    for (int i = 0; i < 3 && !failed; i++) {
      for (size_t d = 0; d < m.docs.size() && !failed; d++) {
        if (X[i]->docs[d]->overflowed()) {
          Inspector::Snap so = Inspector::inspect(*X[i]->docs[d], true);
          bool exhausted = so.ok && so.pools >= (size_t)AJ::detail::NULL_SLOT / ARDUINOJSON_POOL_CAPACITY + 1;   // slot ids lost to shrinkToFit(): C19's known finding
          if (!exhausted && within_capacity(m.docs[d])) viol("spurious-overflow", names[i]);
          failed = true; break;
        }
        Inspector::Snap sn = Inspector::inspect(*X[i]->docs[d]);
        if (!sn.ok) { viol("structure", std::string(names[i]) + " doc" + std::to_string(d) + ": " + sn.error); break; }
        MVal y = extract(*X[i]->docs[d]); CmpOpt co; std::string why;
        if (!mv_equal(m.docs[d], y, co, &why)) viol("document-differs-from-model", std::string(names[i]) + " doc" + std::to_string(d) + " " + why + " | library has " + describe(y, 200));
      }
    }
    if (failed) break;
    // ... and the three replays are indistinguishable through every accessor (documents, live references, the probed target)
    for (size_t d = 0; d < m.docs.size() && !failed; d++) {
      std::string oa = obs(*A.docs[d]), ob = obs(*B.docs[d]), oc = obs(*C.docs[d]);
      c.count("observation_vectors", 3);
      if (oa != ob) viol("storage-kind-observable", "doc" + std::to_string(d) + ": linked (const char*) and copied (std::string) replays differ: " + oa.substr(0, 300) + "  vs  " + ob.substr(0, 300));
      else if (ob != oc) viol("storage-kind-observable", "doc" + std::to_string(d) + ": std::string and rotating-kind replays differ: " + ob.substr(0, 300) + "  vs  " + oc.substr(0, 300));
    }
    for (size_t k = 0; k < m.refs.size() && !failed; k++) {
      if (!m.ref_node((int)k)) continue;
      std::string oa = obs(A.refs[k]), ob = obs(B.refs[k]), oc = obs(C.refs[k]);
      c.count("observation_vectors", 3);
      if (oa != ob || ob != oc) viol("storage-kind-observable", "ref" + std::to_string(k) + ": replays differ: " + oa.substr(0, 250) + "  vs  " + ob.substr(0, 250) + "  vs  " + oc.substr(0, 250));
    }
    {
      // the probed target, and key lookups through every key kind
      AJ::JsonVariantConst va, vb, vc;
      if (o.t.ref < 0 || m.ref_node(o.t.ref)) {
        A.at(o.t, true, [&](auto&& p) { va = p.template as<AJ::JsonVariantConst>(); });
        B.at(o.t, false, [&](auto&& p) { vb = p.template as<AJ::JsonVariantConst>(); });
        C.at(o.t, (s & 1) != 0, [&](auto&& p) { vc = p.template as<AJ::JsonVariantConst>(); });
        std::string oa = obs(va), ob = obs(vb), oc = obs(vc);
        if (oa != ob || ob != oc) viol("storage-kind-observable", "target " + target_str(o.t) + ": replays differ: " + oa.substr(0, 250) + "  vs  " + ob.substr(0, 250) + "  vs  " + oc.substr(0, 250));
        MVal* n = m.resolve_read(o.t);
        if (n && n->k == MVal::Obj) for (auto& kv : n->o) {
          const std::string& k = kv.first;
          std::string l1 = obs(va[k]), l2 = obs(vb[std::string_view(k.data(), k.size())]), l3 = obs(vc[AJ::JsonString(k.data(), k.size())]);
          if (l1 != l2 || l2 != l3) { viol("lookup-key-kind-observable", "member \"" + printable(k, 30) + "\" of " + target_str(o.t) + " reads differently through std::string / string_view / JsonString keys"); break; }
          if (k.find('\0') == std::string::npos) { std::string l4 = obs(vb[(const char*)k.c_str()]); if (l4 != l1) { viol("lookup-key-kind-observable", "member \"" + printable(k, 30) + "\" reads differently through a const char* key"); break; } }
          c.count("key_lookups", 4);
        }
      }
    }
  }
  for (int i = 0; i < 3; i++) { X[i]->docs.clear(); for (auto& a : X[i]->allocs) { if (!a->live.empty()) viol("leak-after-destruction", names[i]); if (!a->errors.empty()) viol("allocator-protocol", a->errors[0]); } }
  c.count("history_steps", (uint64_t)log.size());
  { uint64_t h = 0xcbf29ce484222325ull; for (auto& l : log) h = fnv1a(l, h); c.nontrivial(h); }
  if (c.want_sample()) { std::string s; for (size_t i = 0; i < log.size() && i < 6; i++) s += log[i] + "; "; c.sample(std::to_string(log.size()) + " steps x 3 storage variants: " + s + "..."); }
}
