// C17 Unicode escapes decode correctly for every code point; escaping is the inverse.
#include "../aj/extract.hpp"
#include "../common/driver_main.hpp"
#include "../common/refjson.hpp"

using namespace vf;

uint64_t vf_total(const std::string& mode) {
  if (mode == "units") return 65536;
  if (mode == "pairs") return 1024;
  if (mode == "bytes") return 256;
  if (mode == "positions") return 700;   // number of bytes decoded before the escape: crosses every growth step of the string builder
  return 0;
}

static std::string hex4(uint32_t u, bool upper) { char b[8]; snprintf(b, sizeof b, upper ? "%04X" : "%04x", u); return b; }
static std::string ref_utf8(uint32_t cp) { std::string s; append_utf8(s, cp); return s; }

static bool parse_str(const std::string& text, bool as_key, std::string& out, AJ::DeserializationError& err) {
  AJ::JsonDocument doc;
  char* in = (char*)malloc(text.size()); memcpy(in, text.data(), text.size());
  err = AJ::deserializeJson(doc, (const char*)in, text.size());
  free(in);
  if (err) return false;
  AJ::JsonString s;
  if (as_key) { AJ::JsonObjectConst o = doc.as<AJ::JsonObjectConst>(); auto it = o.begin(); if (it == o.end()) return false; s = it->key(); }
  else s = doc.as<AJ::JsonString>();
  if (s.isNull()) return false;
  out.assign(s.c_str(), s.size());
  return true;
}

static void units(Ctx& c, uint64_t index) {
  uint32_t u = (uint32_t)index;
  bool surrogate = u >= 0xD800 && u <= 0xDFFF;
  for (int pos = 0; pos < 3; pos++) for (int upper = 0; upper < 2; upper++) for (int key = 0; key < 2; key++) {
    std::string esc = "\\u" + hex4(u, upper);
    std::string body = pos == 0 ? esc + "xy" : pos == 1 ? "x" + esc + "y" : "xy" + esc;
    std::string text = key ? "{\"" + body + "\":1}" : "\"" + body + "\"";
    std::string got; AJ::DeserializationError err;
    bool ok = parse_str(text, key, got, err);
    c.count("escape_parses");
    if (surrogate) { c.outcome("unpaired-surrogate"); continue; }   // only safety (sanitizers) is judged
    std::string e = ref_utf8(u);
    std::string expect = pos == 0 ? e + "xy" : pos == 1 ? "x" + e + "y" : "xy" + e;
    if (!ok) { c.violation("escape-rejected", std::string("returned ") + err_name(err), "text=" + text); continue; }
    if (got != expect) c.violation("escape-decoded-wrong", "U+" + hex4(u, true) + " decoded to " + hexs(got) + ", expected " + hexs(expect), "text=" + text);
  }
  c.outcome("code-unit");
  c.nontrivial(index);
  if ((index & 0xfff) == 0) c.sample("\\u" + hex4(u, false) + " at 3 positions x 2 hex cases x value/key");
}

static void pairs(Ctx& c, uint64_t index, Rng& r) {
  uint32_t hi = 0xD800 + (uint32_t)index;
  for (uint32_t lo = 0xDC00; lo <= 0xDFFF; lo++) {
    bool up1 = r.coin(), up2 = r.coin();
    unsigned pos = (unsigned)r.below(3); bool key = r.chance(1, 4);
    std::string esc = "\\u" + hex4(hi, up1) + "\\u" + hex4(lo, up2);
    uint32_t cp = 0x10000 + ((hi - 0xD800) << 10) + (lo - 0xDC00);
    std::string e = ref_utf8(cp);
    // sequences in one string: the pair followed (directly or after plain characters) by BMP escapes, by another pair, or preceded by one
    switch (r.below(6)) {
      case 0: { uint32_t b = (uint32_t)r.pick({0x41u, 0xE9u, 0x7FFu, 0x800u, 0xFFFDu, 0xD7FFu, 0xE000u}); esc += "\\u" + hex4(b, up1); e += ref_utf8(b); break; }
      case 1: { uint32_t b = (uint32_t)r.range(0x20, 0xD7FF); esc += "mid\\u" + hex4(b, up2); e += "mid" + ref_utf8(b); break; }
      case 2: { uint32_t b = (uint32_t)r.range(0xE000, 0xFFFF); esc = "\\u" + hex4(b, up2) + esc + "\\u" + hex4(b, up1); e = ref_utf8(b) + e + ref_utf8(b); break; }
      case 3: { esc += esc; e += e; esc += "\\u0031"; e += "1"; break; }
      default: break;
    }
    std::string body = pos == 0 ? esc + "z" : pos == 1 ? "a" + esc + "z" : "a" + esc;
    std::string text = key ? "{'" + body + "':null}" : "\"" + body + "\"";
    std::string got; AJ::DeserializationError err;
    std::string expect = pos == 0 ? e + "z" : pos == 1 ? "a" + e + "z" : "a" + e;
    c.count("escape_parses");
    if (!parse_str(text, key, got, err)) { c.violation("pair-rejected", std::string("returned ") + err_name(err), "text=" + text); continue; }
    if (got != expect) c.violation("pair-decoded-wrong", "pair decoded to " + hexs(got) + ", expected " + hexs(expect) + " (U+" + hex4(cp, true) + ")", "text=" + text);
  }
  // unpaired surrogates in every order: never crash
  static const char* orders[] = {"\\udc00\\ud800", "\\ud800\\ud800\\udc00", "\\ud800x\\udc00", "\\udc00", "\\ud800", "\\ud800\\u0041", "\\ud800\\n\\udc00", "\\udfff\\udfff"};
  for (auto o : orders) { std::string got; AJ::DeserializationError err; parse_str(std::string("\"") + o + "\"", false, got, err); parse_str(std::string("{\"") + o + "\":[\"" + o + "\"]}", true, got, err); c.count("unpaired_orders"); }
  c.outcome("high-surrogate-row");
  c.nontrivial(index);
  if ((index & 0xff) == 0) c.sample("\\u" + hex4(hi, false) + " followed by each of the 1024 low surrogates");
}

static void bytes(Ctx& c, uint64_t index) {
  unsigned b0 = (unsigned)index;
  AJ::JsonDocument doc, back;
  for (int second = -1; second < 256; second++) {
    std::string s; s += (char)b0; if (second >= 0) s += (char)second;
    doc.set(s);
    std::string text; AJ::serializeJson(doc, text);
    std::string expect; json_escape_canonical(s, expect);   // only " \ \b \f \n \r \t and NUL are altered
    c.count("byte_strings");
    std::string wit = "string bytes " + hexs(s);
    if (text != expect) { c.violation("serializer-alters-other-bytes", "serialized as " + printable(text) + " (" + hexs(text) + "), expected " + hexs(expect), wit); continue; }
    auto err = AJ::deserializeJson(back, text);
    if (err) { c.violation("roundtrip-rejected", std::string("deserializeJson(serializeJson(s)) returned ") + err_name(err), wit); continue; }
    AJ::JsonString js = back.as<AJ::JsonString>();
    if (js.isNull() || std::string(js.c_str(), js.size()) != s) c.violation("roundtrip-bytes-differ", "got " + (js.isNull() ? std::string("non-string") : hexs(std::string(js.c_str(), js.size()))), wit);
    // as a key too
    doc.clear(); doc[s] = 1; AJ::serializeJson(doc, text);
    err = AJ::deserializeJson(back, text);
    bool found = false;
    if (!err) for (AJ::JsonPairConst kv : back.as<AJ::JsonObjectConst>()) found = std::string(kv.key().c_str(), kv.key().size()) == s;
    if (!found) c.violation("roundtrip-key-differs", std::string("key does not survive serializeJson -> deserializeJson (") + err_name(err) + ")", wit);
  }
  c.outcome("first-byte-row");
  c.nontrivial(index);
  if ((index & 0x3f) == 0) c.sample("byte " + hexs(std::string(1, (char)b0)) + " alone and followed by each of the 256 byte values, as value and as key");
}

// escapes after `index` already decoded bytes (the decoder's buffer grows in steps: 31, 63, 127, ... bytes): every encoded length, values and keys
static void positions(Ctx& c, uint64_t index, Rng& r) {
  static const uint32_t cps[] = {0x41, 0x7F, 0x80, 0xE9, 0x7FF, 0x800, 0x3042, 0xD7FF, 0xE000, 0xFFFD, 0xFFFF, 0x10000, 0x1F5A4, 0x10FFFF};
  std::string filler;
  for (uint64_t i = 0; i < index; i++) filler += (char)('a' + (i * 7 + index) % 26);
  for (uint32_t cp : cps) for (int key = 0; key < 2; key++) {
    bool up = r.coin();
    std::string esc;
    if (cp >= 0x10000) { uint32_t v = cp - 0x10000; esc = "\\u" + hex4(0xD800 + (v >> 10), up) + "\\u" + hex4(0xDC00 + (v & 0x3FF), !up); }
    else esc = "\\u" + hex4(cp, up);
    int reps = (int)r.range(1, 3);
    std::string body = filler, expect = filler;
    for (int k = 0; k < reps; k++) { body += esc; expect += ref_utf8(cp); }
    body += "tail"; expect += "tail";
    std::string text = key ? "{\"" + body + "\":1}" : "[\"" + body + "\"]";
    AJ::JsonDocument doc; std::string got;
    char* in = (char*)malloc(text.size()); memcpy(in, text.data(), text.size());
    auto err = AJ::deserializeJson(doc, (const char*)in, text.size());
    free(in);
    c.count("escape_parses");
    std::string wit = "U+" + hex4(cp, true) + " x" + std::to_string(reps) + " after " + std::to_string(index) + " bytes, " + (key ? "key" : "value");
    if (err) { c.violation("escape-rejected", std::string("returned ") + err_name(err), wit); continue; }
    AJ::JsonString js;
    if (key) { AJ::JsonObjectConst o = doc.as<AJ::JsonObjectConst>(); auto it = o.begin(); if (it != o.end()) js = it->key(); }
    else js = doc[0].as<AJ::JsonString>();
    if (js.isNull()) { c.violation("escape-rejected", "no string in the result", wit); continue; }
    got.assign(js.c_str(), js.size());
    if (got != expect) {
      size_t i = 0; while (i < got.size() && i < expect.size() && got[i] == expect[i]) i++;
      c.violation("escape-decoded-wrong", "decoded string differs at byte " + std::to_string(i) + ": got " + hexs(got.substr(i, 8)) + ", expected " + hexs(expect.substr(i, 8)), wit);
    }
  }
  c.outcome("position");
  c.nontrivial(index + 70000);
  if (index % 97 == 0) c.sample("14 code points (1-4 byte encodings) after " + std::to_string(index) + " decoded bytes, value and key");
}

void vf_run_case(Ctx& c, uint64_t index) {
  Rng r(c.seed, 17, index);
  if (c.mode == "units") units(c, index);
  else if (c.mode == "pairs") pairs(c, index, r);
  else if (c.mode == "positions") positions(c, index, r);
  else bytes(c, index);
}
