// C07 Round trips and format conversions preserve the document.
// Differential: the library against itself, judged on extracted values.
#include "../aj/extract.hpp"
#include "../aj/spy_alloc.hpp"
#include "../common/driver_main.hpp"
#include "../common/gen_value.hpp"
#include "../common/refjson.hpp"

using namespace vf;

uint64_t vf_total(const std::string& mode) { return mode == "boundary32" ? 4 : 0; }

// C12 print accuracy; a double that is exactly a float is stored (and printed) as a float
// by design (DESIGN.md don't-care 13), so it is judged by the float bound.
static double print_tol(double x) { bool as_float = !kUseDouble || (double)(float)x == x; return (as_float ? 1e-6 : 1e-9) * std::max(1.0, fabs(x)); }

// Walk model (stored form), the literal tree parsed from the JSON text, and the
// re-parsed document in parallel; floats judged per C12 (print then parse).
static bool json_rt_equal(const MVal& x, const MVal* lit, const MVal& y, std::string& why, const std::string& path) {
  auto fail = [&](const std::string& w) { if (why.empty()) why = path + ": " + w; return false; };
  if (x.k == MVal::Float) {
    if (!y.is_number()) return fail("number became " + describe(y, 60));
    long double got = y.as_ld();
    if (lit && lit->is_number() && !lit->s.empty()) {
      long double v = strtold(lit->s.c_str(), nullptr);
      if (fabsl(v - (long double)x.f) > (long double)print_tol(x.f) * 1.0000001L) return fail("printed literal " + lit->s + " too far from stored value " + describe(x));
      double rel = significant_digits(lit->s) > 7 ? 1e-13 : 1e-6;
      // C12's figures are stated for the default configuration; with 32-bit JsonFloat the
      // 23-bit mantissa cannot hold every 7-digit literal (8388608..9999999 lose a digit),
      // so that configuration is judged with 1e-5 (DESIGN.md don't-care 14)
      if (!kUseDouble) rel = 1e-5;
      if (fabsl(got - v) > (long double)rel * fabsl(v) + 1e-320L) return fail("re-parsed " + describe(y) + " too far from literal " + lit->s);
      return true;
    }
    if (fabsl(got - (long double)x.f) > (long double)print_tol(x.f) + 1e-6L * fabsl((long double)x.f)) return fail("float changed: " + describe(x) + " -> " + describe(y));
    return true;
  }
  if (x.k != y.k) return fail("kind differs: " + describe(x, 60) + " vs " + describe(y, 60));
  switch (x.k) {
    case MVal::Arr:
      if (x.a.size() != y.a.size()) return fail("array size differs");
      for (size_t i = 0; i < x.a.size(); i++)
        if (!json_rt_equal(x.a[i], (lit && lit->k == MVal::Arr && i < lit->a.size()) ? &lit->a[i] : nullptr, y.a[i], why, path + "[" + std::to_string(i) + "]")) return false;
      return true;
    case MVal::Obj:
      if (x.o.size() != y.o.size()) return fail("object size differs (" + std::to_string(x.o.size()) + " vs " + std::to_string(y.o.size()) + ")");
      for (size_t i = 0; i < x.o.size(); i++) {
        if (x.o[i].first != y.o[i].first) return fail("member key/order differs");
        if (!json_rt_equal(x.o[i].second, (lit && lit->k == MVal::Obj && i < lit->o.size()) ? &lit->o[i].second : nullptr, y.o[i].second, why, path + "." + printable(x.o[i].first, 30))) return false;
      }
      return true;
    default: {
      CmpOpt o; o.mode = Cmp::Exact;
      return mv_equal(x, y, o, &why, path);
    }
  }
}

static bool nontrivial(const MVal& m) {
  if (m.is_container()) return !m.a.empty() || !m.o.empty();
  if (m.k == MVal::Float) return true;
  if (m.k == MVal::Str) for (unsigned char c : m.s) if (c < 0x20 || c >= 0x7f || c == '"' || c == '\\') return true;
  return m.k == MVal::Int && m.mag > 0xFFFFFFFFull;
}

void vf_run_case(Ctx& c, uint64_t index) {
  Rng r(c.seed, 7, index);
  GenOpt g;
  g.str_mode = (int)r.below(3);
  g.float32_only = !kUseDouble;
  g.max_depth = (int)r.range(0, 6);
  g.max_str = r.chance(1, 10) ? 70 : 24;
  if (r.chance(1, 50)) g.long_str = 300;
  MVal model;
  if (c.mode == "boundary32") {
    // documents at the 16/32-bit header boundary of MessagePack maps and arrays (about a minute each: building is quadratic)
    size_t n = index % 2 == 0 ? 65536 : 65535;
    if (index >= 2) { /* objects: thorough tier only, each costs minutes */ model = MVal::obj(); for (size_t i = 0; i < n; i++) model.o.emplace_back("k" + std::to_string(i), MVal::uint(i & 0xff)); }
    else { model = MVal::arr(); for (size_t i = 0; i < n; i++) model.a.push_back(i % 3 ? MVal::uint(i & 0x7f) : MVal::str("s")); }
  }
  else if (r.chance(1, 25)) model = gen_chain(r, (int)r.range(1, 30), (int)r.below(3));
  else model = gen_value(r, g);
  size_t depth = model.nesting();
  auto limit = AJ::DeserializationOption::NestingLimit((uint8_t)std::min<size_t>(255, std::max<size_t>(10, depth)));
  std::string wit = describe(model);
  if (c.want_sample()) c.sample(wit);
  if (nontrivial(model)) c.nontrivial(mv_hash(model));

  SpyAllocator sa;
  AJ::JsonDocument doc(&sa);
  BuildOpt bo; bo.rng = &r;
  bool built = build(doc.to<AJ::JsonVariant>(), model, bo) && !doc.overflowed();
  if (!built && !within_capacity(model)) { c.outcome("over-capacity"); return; }
  if (!built) { c.violation("build-failed", "building the document through the API reported failure without allocation failure", wit); return; }
  MVal stored = stored_form(model);
  ExtractState es;
  MVal x0 = extract(doc, &es);
  {
    std::string why; CmpOpt o; o.mode = Cmp::Exact;
    if (!mv_equal(stored, x0, o, &why)) { c.violation("api-build-mismatch", why, wit); return; }
  }

  // (a) JSON round trip
  std::string text;
  AJ::serializeJson(doc, text);
  {
    AJ::JsonDocument d2;
    auto err = AJ::deserializeJson(d2, text, limit);
    if (err) { c.violation("json-roundtrip-error", std::string("deserializeJson(serializeJson(d)) returned ") + err_name(err), wit + "  text=" + printable(text)); c.outcome("json-rt-error"); }
    else {
      MVal lit; bool have_lit = parse_json_strict(text, lit);
      MVal y = extract(d2);
      std::string why;
      if (!json_rt_equal(stored, have_lit ? &lit : nullptr, y, why, "$")) c.violation("json-roundtrip-differs", why, wit + "  text=" + printable(text));
      c.outcome("json-rt");
    }
  }

  // (b) MessagePack round trip
  std::string bytes;
  AJ::serializeMsgPack(doc, bytes);
  {
    AJ::JsonDocument d3;
    auto err = AJ::deserializeMsgPack(d3, bytes, limit);
    if (err) { c.violation("msgpack-roundtrip-error", std::string("deserializeMsgPack(serializeMsgPack(d)) returned ") + err_name(err), wit + "  bytes=" + hexs(bytes.substr(0, 200))); c.outcome("mp-rt-error"); }
    else {
      MVal y = extract(d3);
      std::string why; CmpOpt o; o.mode = Cmp::ByValue;
      if (!mv_equal(stored, y, o, &why)) c.violation("msgpack-roundtrip-differs", why + " got " + describe(y, 200), wit + "  bytes=" + hexs(bytes.substr(0, 200)));
      std::string bytes2;
      AJ::serializeMsgPack(d3, bytes2);
      if (bytes2 != bytes) c.violation("msgpack-reserialize-not-identical", "second serialization differs from the first (" + std::to_string(bytes.size()) + " vs " + std::to_string(bytes2.size()) + " bytes)", wit + "  bytes=" + hexs(bytes.substr(0, 200)) + " bytes2=" + hexs(bytes2.substr(0, 200)));
      c.outcome("mp-rt");
    }
  }

  // (c) JSON -> document -> MessagePack -> document
  {
    AJ::JsonDocument dj, dm;
    auto e1 = AJ::deserializeJson(dj, text, limit);
    if (!e1) {
      std::string b2;
      AJ::serializeMsgPack(dj, b2);
      auto e2 = AJ::deserializeMsgPack(dm, b2, limit);
      if (e2) c.violation("json-to-msgpack-error", std::string("deserializeMsgPack of the converted document returned ") + err_name(e2), wit + "  text=" + printable(text));
      else {
        MVal a = extract(dj), b = extract(dm);
        std::string why; CmpOpt o; o.mode = Cmp::ByValue;
        if (!mv_equal(a, b, o, &why)) c.violation("json-to-msgpack-differs", why, wit + "  text=" + printable(text));
        c.outcome("convert");
      }
    }
  }
  if (!sa.errors.empty()) c.violation("allocator-protocol", sa.errors[0], wit);
}
