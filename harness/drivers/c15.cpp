// C15 The nesting limit bounds recursion for every input.
#include "../aj/extract.hpp"
#include "../aj/readers.hpp"
#include "../common/driver_main.hpp"
#include "../common/gen_value.hpp"

using namespace vf;

static const int NSHAPES_JSON = 11, NSHAPES_MP = 10;

uint64_t vf_total(const std::string& mode) {
  if (mode == "grid") return 256ull * (NSHAPES_JSON + NSHAPES_MP);
  if (mode == "default") return (uint64_t)(NSHAPES_JSON + NSHAPES_MP);   // no NestingLimit option: the configured default applies
  return 0;
}

struct Shape { std::string open, close, name; bool msgpack = false; int filter = 0; std::string pre, post; };

// n nested containers around a scalar; closed = with the closing part
static std::string nest(const Shape& s, size_t n, bool closed) {
  std::string b = s.pre;
  for (size_t i = 0; i < n; i++) b += s.open;
  if (closed || !s.msgpack) b += s.msgpack ? std::string("\x01", 1) : "1";   // MessagePack has no closers: "unclosed" = the innermost value is missing
  if (closed) { for (size_t i = 0; i < n; i++) b += s.close; b += s.post; }
  return b;
}

static Shape shape(int id, bool msgpack, Rng& r) {
  Shape s; s.msgpack = msgpack;
  if (!msgpack) {
    switch (id) {
      case 0: s.open = "["; s.close = "]"; s.name = "arrays"; break;
      case 1: s.open = "{\"a\":"; s.close = "}"; s.name = "objects"; break;
      case 2: s.open = "[{\"k\":"; s.close = "}]"; s.name = "alternating"; break;   // two levels per unit
      case 3: s.open = "["; s.close = "]"; s.pre = "{\"skip\":"; s.post = ",\"keep\":1}"; s.filter = 1; s.name = "arrays inside a member discarded by the filter"; break;
      case 4: s.open = "{\"a\":"; s.close = "}"; s.pre = "{\"skip\":"; s.post = ",\"keep\":1}"; s.filter = 1; s.name = "objects inside a member discarded by the filter"; break;
      case 5: s.open = "["; s.close = "]"; s.filter = 2; s.name = "arrays not admitted by an object filter"; break;
      case 6: s.open = " [ "; s.close = " ] "; s.name = "arrays with whitespace"; break;
      case 7: s.open = "{'a' : "; s.close = " } "; s.name = "objects, single quotes"; break;
      case 8: s.open = "{\"k\":0,\"k\":"; s.close = "}"; s.name = "objects under a repeated key (the value replaces an existing member)"; break;
      case 9: s.open = "[0,\"s\","; s.close = "]"; s.name = "arrays, the nested one after two siblings"; break;
      default: s.open = "{\"a\":1,\"b\":"; s.close = ",\"c\":null}"; s.name = "objects, the nested one between two sibling members"; break;
    }
  } else {
    switch (id) {
      case 0: s.open = "\x91"; s.name = "fixarray"; break;
      case 1: s.open = std::string("\xdc\x00\x01", 3); s.name = "array16"; break;
      case 2: s.open = std::string("\xdd\x00\x00\x00\x01", 5); s.name = "array32"; break;
      case 3: s.open = "\x81\xa1k"; s.name = "fixmap"; break;
      case 4: s.open = std::string("\xde\x00\x01\xa1k", 5); s.name = "map16"; break;
      case 5: s.open = std::string("\xdf\x00\x00\x00\x01\xd9\x01k", 8); s.name = "map32, str8 key"; break;
      case 6: s.open = std::string("\x82\xa1k\x00\xa1k", 6); s.name = "fixmap under a repeated key"; break;
      case 7: s.open = std::string("\x93\x00", 2); s.close = "\x02"; s.name = "fixarray, the nested one between two siblings"; break;
      case 8: s.open = std::string("\x82\xa1" "a\x01\xa1" "b", 6); s.name = "fixmap, the nested one after a sibling member"; break;
      default: s.open = "\x91"; s.pre = std::string("\x82\xa4skip", 6); s.post = std::string("\xa4keep\x01", 6); s.filter = 1; s.name = "fixarray inside a member discarded by the filter"; break;
    }
  }
  (void)r;
  return s;
}

struct RunOut { AJ::DeserializationError err; size_t nesting = 0; size_t stack = 0; };

static bool g_filter_first = false, g_no_limit_option = false;
static RunOut run(const std::string& bytes, const Shape& s, uint8_t L) {
  RunOut o;
  AJ::JsonDocument filter;
  if (s.filter == 1) filter["keep"] = true;
  if (s.filter == 2) filter["a"] = true;
  AJ::JsonDocument doc;
  DeserOpt op; op.msgpack = s.msgpack; op.limit = L; op.filter_first = g_filter_first; op.no_limit_option = g_no_limit_option; op.use_filter = s.filter != 0; op.filter = filter.as<AJ::JsonVariantConst>();
  ReadStats st;
  char anchor;
  o.err = deser_kind(IN_CUSTOM_READER, doc, bytes, op, &st);
  o.stack = st.lowest_sp ? (size_t)(&anchor - (const char*)st.lowest_sp) : 0;
  o.nesting = doc.nesting();
  return o;
}

static size_t levels_per_unit(const Shape& s) { return s.name == "alternating" ? 2 : 1; }

void vf_run_case(Ctx& c, uint64_t index) {
  Rng r(c.seed, 15, index);
  int L; int sid; bool msgpack;
  if (c.mode == "grid") {
    L = (int)(index % 256); int k = (int)(index / 256);
    msgpack = k >= NSHAPES_JSON; sid = msgpack ? k - NSHAPES_JSON : k;
  } else if (c.mode == "default") {
    L = ARDUINOJSON_DEFAULT_NESTING_LIMIT; int k = (int)index; g_no_limit_option = true;
    msgpack = k >= NSHAPES_JSON; sid = msgpack ? k - NSHAPES_JSON : k;
  } else { L = (int)r.below(256); msgpack = r.coin(); sid = (int)r.below(msgpack ? NSHAPES_MP : NSHAPES_JSON); }
  Shape s = shape(sid, msgpack, r);
  g_filter_first = ((L + sid) & 1) != 0;   // (Filter, NestingLimit) and (NestingLimit, Filter) argument orders alternate over the grid
  size_t per = levels_per_unit(s);
  size_t outer = s.pre.empty() ? 0 : 1;            // the enclosing object of the filter shapes is one level itself
  std::string wit0 = std::string(msgpack ? "msgpack " : "json ") + s.name + ", limit " + std::to_string(L);
  if (c.want_sample()) c.sample(wit0);
  c.nontrivial(mix3((uint64_t)L, (uint64_t)sid, msgpack));
  // number of units so that the total depth is D: units = (D - outer) / per
  auto units_for_depth = [&](long D) -> long { return (D - (long)outer) / (long)per; };
  long Ds[] = {(long)L - 1, (long)L, (long)L + 1, (long)L + 2};
  RunOut at_limit{}, over1{};
  bool have_at = false, have_over = false;
  for (long D : Ds) {
    if (D < (long)outer + 0) continue;
    long u = units_for_depth(D);
    if (u < 0) continue;
    size_t depth = (size_t)u * per + outer;          // actual depth of this input
    std::string bytes = nest(s, (size_t)u, true);
    RunOut o = run(bytes, s, (uint8_t)L);
    c.count("grid_calls");
    std::string wit = wit0 + ", depth " + std::to_string(depth) + ", closed";
    bool filtered_away = s.filter == 2;
    if (depth > (size_t)L) {
      if (o.err != AJ::DeserializationError::TooDeep) c.violation("too-deep-not-reported", std::string("returned ") + err_name(o.err) + " for depth " + std::to_string(depth) + " > limit " + std::to_string(L), wit);
      if (!have_over) { over1 = o; have_over = true; }
    } else {
      if (o.err != AJ::DeserializationError::Ok) c.violation("too-deep-misreported", std::string("returned ") + err_name(o.err) + " for depth " + std::to_string(depth) + " <= limit " + std::to_string(L), wit);
      else if (o.nesting > (size_t)L) c.violation("nesting-above-limit", "nesting() = " + std::to_string(o.nesting) + " > limit", wit);
      else if (s.filter == 0 && o.nesting != depth) c.violation("nesting-wrong", "nesting() = " + std::to_string(o.nesting) + " for an input of depth " + std::to_string(depth), wit);
      if (depth == (size_t)L || depth + per > (size_t)L) { at_limit = o; have_at = true; }
      (void)filtered_away;
    }
  }
  // thousands of openings: still TooDeep, and no more stack than the shallowest over-limit input
  for (size_t big : {(size_t)5000, (size_t)20000}) {
    if (big * per + outer <= (size_t)L) continue;
    RunOut o = run(nest(s, big, false), s, (uint8_t)L);
    c.count("grid_calls");
    std::string wit = wit0 + ", " + std::to_string(big) + " openings, unclosed";
    if (o.err != AJ::DeserializationError::TooDeep) c.violation("too-deep-not-reported", std::string("returned ") + err_name(o.err) + " for " + std::to_string(big) + " openings with limit " + std::to_string(L), wit);
    if (have_over && o.stack > over1.stack + 256) c.violation("stack-grows-with-input", "stack use " + std::to_string(o.stack) + " bytes with " + std::to_string(big) + " openings, " + std::to_string(over1.stack) + " bytes with limit+1..2 openings (same limit)", wit);
    c.count("stack_comparisons");
  }
  // inputs within the limit never need more stack than the deepest admissible one
  if (have_at && L >= 2) {
    long u = units_for_depth(L / 2);
    if (u >= 0) {
      RunOut o = run(nest(s, (size_t)u, true), s, (uint8_t)L);
      if (o.err == AJ::DeserializationError::Ok && o.stack > at_limit.stack + 256) c.violation("stack-exceeds-bound", "stack use " + std::to_string(o.stack) + " bytes at half depth exceeds " + std::to_string(at_limit.stack) + " bytes at the limit", wit0);
      c.count("stack_comparisons");
    }
  }
  // unclosed input within the limit is incomplete, not too deep
  if (L >= 1) {
    long u = units_for_depth(L);
    if (u >= 1) {
      RunOut o = run(nest(s, (size_t)u, false), s, (uint8_t)L);
      if (o.err != AJ::DeserializationError::IncompleteInput) c.violation("unclosed-within-limit", std::string("returned ") + err_name(o.err) + " for an unclosed input whose depth equals the limit", wit0);
    }
  }
  c.outcome(msgpack ? "msgpack-shape" : "json-shape");
}
