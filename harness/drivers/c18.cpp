// C18 Comparison operators form one coherent relation that agrees with the values.
#include "../aj/apply.hpp"
#include "../common/driver_main.hpp"

using namespace vf;

struct Item { MVal m; int storage; };   // storage: ints 0 signed / 1 unsigned API; strings 0 copied / 1 linked; floats 0 double / 1 float API

static std::vector<Item> g_pool;
static std::unique_ptr<AJ::JsonDocument> g_docA, g_docB;
static StringArena g_arena;

static void add(const MVal& m, int storage = 0) { g_pool.push_back({stored_form(m), storage}); }   // stored_form: 32-bit JsonFloat builds round every double

static void make_pool() {
  if (!g_pool.empty()) return;
  add(MVal::null());
  add(MVal::boolean(false)); add(MVal::boolean(true));
  // integers: every width edge +-1, both storages where possible
  static const int ks[] = {0, 1, 7, 8, 15, 16, 24, 31, 32, 53, 63, 64};   // 24 and 53: the float and double mantissa widths
  for (int k : ks) for (int d = -1; d <= 1; d++) {
    uint64_t v = (k >= 64 ? 0 : (1ull << k)) + (uint64_t)(int64_t)d;
    if (k == 0 && d < 0) v = 0;
    add(MVal::uint(v), 1);
    if (v <= (uint64_t)INT64_MAX) add(MVal::uint(v), 0);
    if (v <= (1ull << 63) && v != 0) { MVal n = MVal::uint(v); n.neg = true; add(n, 0); }
  }
  add(MVal::uint(42), 0); add(MVal::uint(42), 1); add(MVal::sint(-42), 0);
  // floats / doubles
  static const double fs[] = {0.0, -0.0, 1.0, -1.0, 0.5, 1.5, 42.0, -42.0, 42.5, 255.0, 256.0, 65536.0, 16777215.0, 16777216.0, 16777217.0, 16777218.0, 2147483647.0, 2147483648.0, 4294967295.0, 4294967296.0,
                              9007199254740991.0, 9007199254740992.0, 9007199254740993.0, 9223372036854775807.0, 9223372036854775808.0, 18446744073709551615.0, 1.8446744073709552e19,
                              -9223372036854775808.0, -9223372036854777856.0, 1e-310, 4.9e-324, 1e300, -1e300, 3.4028234663852886e38, 1e-45, 0.1, 0.30000000000000004, 3.14};
  for (double f : fs) { add(MVal::flt(f), 0); if ((double)(float)f == f) add(MVal::flt(f), 1); }
  add(MVal::flt(INFINITY)); add(MVal::flt(-INFINITY)); add(MVal::flt(NAN));
  // strings: prefixes, NUL, >= 0x80, numeric-looking
  static const char* ss[] = {"", "a", "ab", "abc", "b", "B", "42", "42.0", "true", "null", "hello world", "\xc3\xa9", "\x80", "\xff", "a\x01"};
  for (auto s : ss) { add(MVal::str(s), 0); add(MVal::str(s), 1); }
  add(MVal::str(std::string("a\0b", 3))); add(MVal::str(std::string("a\0c", 3))); add(MVal::str(std::string("a\0", 2)));
  // raw values incl. prefixes of one another
  for (auto s : {"1", "12", "123", "[1]", "[1,2]", "\"abc\"", "abc", ""}) add(MVal::raw(s));
  add(MVal::bin("\x01\x02")); add(MVal::bin("\x01\x02\x03"));
  // containers, nested, permuted objects
  auto arr = [](std::initializer_list<MVal> l) { MVal a = MVal::arr(); for (auto& e : l) a.a.push_back(e); return a; };
  auto obj = [](std::initializer_list<std::pair<const char*, MVal>> l) { MVal o = MVal::obj(); for (auto& e : l) o.o.emplace_back(e.first, e.second); return o; };
  add(arr({})); add(arr({MVal::uint(1)})); add(arr({MVal::uint(1), MVal::uint(2)})); add(arr({MVal::uint(2), MVal::uint(1)})); add(arr({MVal::flt(1.0), MVal::flt(2.0)}));
  add(arr({MVal::null()})); add(arr({arr({})})); add(arr({MVal::str("a"), obj({{"k", MVal::uint(1)}})}));
  add(obj({})); add(obj({{"a", MVal::uint(1)}})); add(obj({{"a", MVal::uint(1)}, {"b", MVal::uint(2)}})); add(obj({{"b", MVal::uint(2)}, {"a", MVal::uint(1)}}));
  add(obj({{"a", MVal::uint(1)}, {"b", MVal::uint(3)}})); add(obj({{"a", MVal::null()}})); add(obj({{"a", arr({MVal::uint(1)})}})); add(obj({{"a", MVal::flt(1.0)}, {"b", MVal::sint(2)}}));
  // materialise: each item is element i of docA and of docB (another document, other storage for strings)
  g_docA.reset(new AJ::JsonDocument); g_docB.reset(new AJ::JsonDocument);
  for (int which = 0; which < 2; which++) {
    AJ::JsonDocument& d = which ? *g_docB : *g_docA;
    for (auto& it : g_pool) {
      AJ::JsonVariant v = d.add<AJ::JsonVariant>();
      const MVal& m = it.m;
      int st = which ? 1 - it.storage : it.storage;
      if (m.k == MVal::Int) { if (m.neg) v.set(m.as_i64()); else if (st == 0 && m.mag <= (uint64_t)INT64_MAX) v.set((int64_t)m.mag); else v.set(m.mag); }
      else if (m.k == MVal::Float) { if (st == 1 && (double)(float)m.f == m.f) v.set((float)m.f); else v.set(m.f); }
      else if (m.k == MVal::Str) { if (st == 1 && m.s.find('\0') == std::string::npos) v.set((const char*)g_arena.keep(m.s)); else v.set(m.s); }
      else build(v, m);
    }
  }
}

uint64_t vf_total(const std::string& mode) {
  make_pool();
  if (mode == "pairs") return (uint64_t)g_pool.size() * g_pool.size();
  if (mode == "scalars") return g_pool.size();
  return 0;
}

enum Ref { LESS = -1, EQUAL = 0, GREATER = 1, DIFFER = 2, UNKNOWN = 3 };

static bool model_equal(const MVal& a, const MVal& b);

// what the statement determines; UNKNOWN = only the coherence laws are judged
static Ref ref_compare(const MVal& a, const MVal& b) {
  if (a.is_number() && b.is_number()) {
    if (a.k == MVal::Int && b.k == MVal::Int) {
      if (a.neg != b.neg) return a.neg ? LESS : GREATER;
      if (a.mag == b.mag) return EQUAL;
      bool lt = a.neg ? a.mag > b.mag : a.mag < b.mag;
      return lt ? LESS : GREATER;
    }
    double x = a.k == MVal::Int ? (a.neg ? -(double)a.mag : (double)a.mag) : a.f;
    double y = b.k == MVal::Int ? (b.neg ? -(double)b.mag : (double)b.mag) : b.f;
    if (x != x || y != y) return UNKNOWN;   // NaN: don't-care 4
    return x < y ? LESS : x > y ? GREATER : EQUAL;
  }
  if ((a.k == MVal::Bool && b.is_number()) || (b.k == MVal::Bool && a.is_number())) return UNKNOWN;   // the statement does not say whether true == 1
  // bin / ext values are raw values (header + payload): compared by their stored bytes like any serialized() value
  auto rawbytes = [](const MVal& v) { return v.k == MVal::Raw ? v.s : mp_encode(v); };
  bool araw = a.k == MVal::Raw || a.k == MVal::Bin || a.k == MVal::Ext, braw = b.k == MVal::Raw || b.k == MVal::Bin || b.k == MVal::Ext;
  if (araw && braw) return rawbytes(a) == rawbytes(b) ? EQUAL : UNKNOWN;
  if (a.k != b.k) return DIFFER;
  switch (a.k) {
    case MVal::Null: return EQUAL;
    case MVal::Bool: return a.b == b.b ? EQUAL : UNKNOWN;   // order of booleans not specified
    case MVal::Str: return a.s == b.s ? EQUAL : UNKNOWN;    // equal only when bytes identical; the order itself is not specified
    case MVal::Raw: case MVal::Bin: case MVal::Ext: return (a.s == b.s && a.ext == b.ext) ? EQUAL : UNKNOWN;
    case MVal::Arr: case MVal::Obj: return model_equal(a, b) ? EQUAL : DIFFER;
    default: return UNKNOWN;
  }
}

static bool model_equal(const MVal& a, const MVal& b) {
  if (a.k == MVal::Arr && b.k == MVal::Arr) {
    if (a.a.size() != b.a.size()) return false;
    for (size_t i = 0; i < a.a.size(); i++) if (!model_equal(a.a[i], b.a[i])) return false;
    return true;
  }
  if (a.k == MVal::Obj && b.k == MVal::Obj) {
    if (a.o.size() != b.o.size()) return false;
    for (auto& kv : a.o) { const MVal* o = b.find(kv.first); if (!o || !model_equal(kv.second, *o)) return false; }
    return true;
  }
  Ref r = ref_compare(a, b);
  return r == EQUAL;
}

// three-valued deep equality: EQUAL, DIFFER, or UNKNOWN when the statement leaves a nested comparison open
static Ref deep_eq(const MVal& a, const MVal& b) {
  bool ac = a.k == MVal::Arr || a.k == MVal::Obj, bc = b.k == MVal::Arr || b.k == MVal::Obj;
  if (!ac && !bc) {
    Ref r = ref_compare(a, b);
    if (r == EQUAL) return EQUAL;
    if (r == LESS || r == GREATER || r == DIFFER) return DIFFER;
    if (a.k == b.k && (a.k == MVal::Str || a.k == MVal::Bool)) return DIFFER;   // different bytes / different truth values
    return UNKNOWN;
  }
  if (a.k != b.k) return DIFFER;
  bool unknown = false;
  if (a.k == MVal::Arr) {
    if (a.a.size() != b.a.size()) return DIFFER;
    for (size_t i = 0; i < a.a.size(); i++) { Ref r = deep_eq(a.a[i], b.a[i]); if (r == DIFFER) return DIFFER; if (r == UNKNOWN) unknown = true; }
  } else {
    if (a.o.size() != b.o.size()) return DIFFER;
    for (auto& kv : a.o) { const MVal* o = b.find(kv.first); if (!o) return DIFFER; Ref r = deep_eq(kv.second, *o); if (r == DIFFER) return DIFFER; if (r == UNKNOWN) unknown = true; }
  }
  return unknown ? UNKNOWN : EQUAL;
}

// small containers over a tiny alphabet of keys and scalars (many nulls), so that edits collide
static MVal gen_small(Rng& r, int depth, bool force_container) {
  static const char* keys[] = {"a", "b", "c", "d", "", "ab"};
  if (!force_container && (depth >= 3 || r.chance(3, 5))) {
    switch (r.below(12)) {
      case 0: case 1: case 2: return MVal::null();
      case 3: return MVal::boolean(r.coin());
      case 4: return MVal::uint(0);
      case 5: return MVal::uint(1);
      case 6: return MVal::flt(1.0);
      case 7: return MVal::sint(-1);
      case 8: return MVal::str("a");
      case 9: return MVal::str("");
      case 10: return MVal::flt(0.5);
      default: return MVal::str("1");
    }
  }
  size_t n = (size_t)r.below(5);
  if (r.coin()) { MVal m = MVal::arr(); for (size_t i = 0; i < n; i++) m.a.push_back(gen_small(r, depth + 1, false)); return m; }
  MVal m = MVal::obj();
  for (size_t i = 0; i < n; i++) { std::string k = r.pick(keys); if (!m.find(k)) m.o.emplace_back(k, gen_small(r, depth + 1, false)); }
  return m;
}

static void collect_containers(MVal& m, std::vector<MVal*>& out) {
  if (m.k == MVal::Arr) { out.push_back(&m); for (auto& e : m.a) collect_containers(e, out); }
  else if (m.k == MVal::Obj) { out.push_back(&m); for (auto& kv : m.o) collect_containers(kv.second, out); }
}

static const char* edit_small(Rng& r, MVal& root) {
  static const char* keys[] = {"a", "b", "c", "d", "", "ab"};
  std::vector<MVal*> cs; collect_containers(root, cs);
  MVal& t = *cs[r.below(cs.size())];
  if (t.k == MVal::Obj) {
    size_t n = t.o.size();
    switch (r.below(7)) {
      case 0: if (n) { std::string k = r.pick(keys); if (!t.find(k)) { t.o[r.below(n)].first = k; return "rename-key"; } } return "none";
      case 1: if (n) { t.o[r.below(n)].second = MVal::null(); return "member-to-null"; } return "none";
      case 2: if (n) { t.o.erase(t.o.begin() + (long)r.below(n)); return "remove-member"; } return "none";
      case 3: { std::string k = r.pick(keys); if (!t.find(k)) { t.o.emplace_back(k, r.coin() ? MVal::null() : gen_small(r, 3, false)); return "add-member"; } return "none"; }
      case 4: if (n > 1) { std::swap(t.o[r.below(n)], t.o[r.below(n)]); return "permute"; } return "none";
      case 5: if (n) { auto& v = t.o[r.below(n)].second; if (v.k == MVal::Int && !v.neg) { v = MVal::flt((double)v.mag); return "same-number-other-storage"; } } return "none";
      default: if (n) { t.o[r.below(n)].second = gen_small(r, 2, false); return "replace-member"; } return "none";
    }
  }
  size_t n = t.a.size();
  switch (r.below(6)) {
    case 0: t.a.push_back(MVal::null()); return "append-null";
    case 1: if (n) { t.a.pop_back(); return "drop-last"; } return "none";
    case 2: if (n) { t.a[r.below(n)] = MVal::null(); return "element-to-null"; } return "none";
    case 3: if (n > 1) { std::swap(t.a[r.below(n)], t.a[r.below(n)]); return "swap-elements"; } return "none";
    case 4: if (n) { auto& v = t.a[r.below(n)]; if (v.k == MVal::Int && !v.neg) { v = MVal::flt((double)v.mag); return "same-number-other-storage"; } } return "none";
    default: if (n) { t.a[r.below(n)] = gen_small(r, 2, false); return "replace-element"; } return "none";
  }
}

struct Ops { bool eq, ne, lt, le, gt, ge; };
template <class A, class B> static Ops ops(const A& a, const B& b) { return Ops{a == b, a != b, a < b, a <= b, a > b, a >= b}; }

static void laws(Ctx& c, const Ops& ab, const Ops& ba, Ref r, const std::string& wit) {
  auto v = [&](const char* law, const std::string& d) { c.violation(law, d, wit); };
  if (ab.eq != ba.eq) v("law-eq-symmetric", "a==b differs from b==a");
  if (ab.ne != !ab.eq) v("law-ne-is-not-eq", "a!=b is not the negation of a==b");
  if (ab.lt != ba.gt) v("law-lt-is-reversed-gt", "a<b differs from b>a");
  if (ab.gt != ba.lt) v("law-lt-is-reversed-gt", "a>b differs from b<a");
  if (ab.le != (ab.lt || ab.eq)) v("law-le", "a<=b is not (a<b or a==b)");
  if (ab.ge != (ab.gt || ab.eq)) v("law-ge", "a>=b is not (a>b or a==b)");
  if ((int)ab.lt + (int)ab.eq + (int)ab.gt > 1) v("law-trichotomy", "more than one of a<b, a==b, a>b holds");
  switch (r) {
    case EQUAL: if (!ab.eq || ab.lt || ab.gt) v("agrees-with-values", "values are equal but the operators say otherwise (==:" + std::to_string(ab.eq) + " <:" + std::to_string(ab.lt) + " >:" + std::to_string(ab.gt) + ")"); break;
    case LESS: if (!ab.lt || ab.eq || ab.gt) v("agrees-with-values", "a is less than b but the operators say otherwise (==:" + std::to_string(ab.eq) + " <:" + std::to_string(ab.lt) + " >:" + std::to_string(ab.gt) + ")"); break;
    case GREATER: if (!ab.gt || ab.eq || ab.lt) v("agrees-with-values", "a is greater than b but the operators say otherwise (==:" + std::to_string(ab.eq) + " <:" + std::to_string(ab.lt) + " >:" + std::to_string(ab.gt) + ")"); break;
    case DIFFER: if (ab.eq || ab.lt || ab.gt || ab.le || ab.ge) v("agrees-with-values", "values of different kinds / different containers compare as related (==:" + std::to_string(ab.eq) + " <:" + std::to_string(ab.lt) + " >:" + std::to_string(ab.gt) + ")"); break;
    case UNKNOWN:
      break;
  }
}

// strings and raws are equal only when their bytes are identical
static void bytes_rule(Ctx& c, const MVal& a, const MVal& b, const Ops& ab, const std::string& wit) {
  auto israw = [](const MVal& v) { return v.k == MVal::Raw || v.k == MVal::Bin || v.k == MVal::Ext; };
  auto bytes_of = [](const MVal& v) { return v.k == MVal::Raw || v.k == MVal::Str ? v.s : mp_encode(v); };
  bool same_kind = (a.k == MVal::Str && b.k == MVal::Str) || (israw(a) && israw(b));
  if (same_kind && ab.eq && bytes_of(a) != bytes_of(b)) c.violation("equal-with-different-bytes", "values with different bytes compare equal", wit);
}

template <class T>
static void scalar_side(Ctx& c, AJ::JsonVariantConst v, const MVal& m, T x, long double xv, bool x_is_int, const char* tname) {
  Ops ab = ops(v, x), ba = ops(x, v);
  Ref r = UNKNOWN;
  if (m.is_number()) {
    if (m.k == MVal::Int && x_is_int) { long double a = m.as_ld(); r = a < xv ? LESS : a > xv ? GREATER : EQUAL; }
    else { double a = m.k == MVal::Int ? (m.neg ? -(double)m.mag : (double)m.mag) : m.f; double b = (double)xv; if (a == a && b == b) r = a < b ? LESS : a > b ? GREATER : EQUAL; }
  } else if (m.k != MVal::Bool) r = DIFFER;
  char w[200]; snprintf(w, sizeof w, "variant %s  vs  (%s)%.20Lg", describe(m, 80).c_str(), tname, xv);
  laws(c, ab, ba, r, w);
  c.count("scalar_comparisons");
}

void vf_run_case(Ctx& c, uint64_t index) {
  make_pool();
  size_t n = g_pool.size();
  if (c.mode == "pairs") {
    size_t i = (size_t)(index / n), j = (size_t)(index % n);
    const MVal& a = g_pool[i].m; const MVal& b = g_pool[j].m;
    Ref r = ref_compare(a, b);
    std::string wit = "a = " + describe(a, 100) + " (storage " + std::to_string(g_pool[i].storage) + ")   b = " + describe(b, 100) + " (storage " + std::to_string(g_pool[j].storage) + ")";
    AJ::JsonVariantConst va = (*g_docA)[i], vb = (*g_docA)[j], wb = (*g_docB)[j], wa = (*g_docB)[i];
    { Ops ab = ops(va, vb), ba = ops(vb, va); laws(c, ab, ba, r, "same document: " + wit); bytes_rule(c, a, b, ab, wit); }
    { Ops ab = ops(va, wb), ba = ops(wb, va); laws(c, ab, ba, r, "two documents: " + wit); bytes_rule(c, a, b, ab, wit); }
    { AJ::JsonVariant ma = (*g_docA)[i].as<AJ::JsonVariant>(); Ops ab = ops(ma, wb), ba = ops(wb, ma); laws(c, ab, ba, r, "JsonVariant vs JsonVariantConst: " + wit); }
    // containers through their own handles
    if (a.k == MVal::Arr && b.k == MVal::Arr) { bool e = va.as<AJ::JsonArrayConst>() == wb.as<AJ::JsonArrayConst>(); if (e != (r == EQUAL)) c.violation("agrees-with-values", "JsonArrayConst == disagrees with element-wise equality", wit); }
    if (a.k == MVal::Obj && b.k == MVal::Obj) { bool e = va.as<AJ::JsonObjectConst>() == wb.as<AJ::JsonObjectConst>(); if (e != (r == EQUAL)) c.violation("agrees-with-values", "JsonObjectConst == disagrees with member-wise equality", wit); }
    // unbound references equal only null
    if (j == 0) { AJ::JsonVariantConst unb; Ops ab = ops(va, unb), ba = ops(unb, va); laws(c, ab, ba, a.k == MVal::Null ? EQUAL : DIFFER, "a vs unbound: " + wit); }
    // null C++ string operands (a null char pointer, a null JsonString): the library treats them as null, and null equals only null
    if (j == 2) {
      Ref rn = a.k == MVal::Null ? EQUAL : DIFFER;
      { const char* np = nullptr; Ops ab = ops(va, np), ba = ops(np, va); laws(c, ab, ba, rn, "variant vs (const char*)nullptr: " + wit); }
      { AJ::JsonString nj; Ops ab = ops(va, nj), ba = ops(nj, va); laws(c, ab, ba, rn, "variant vs null JsonString: " + wit); }
      c.count("null_string_operands");
    }
    // JsonString handles of two string values: equal exactly when the bytes are identical (== and != coherent, symmetric)
    if (a.k == MVal::Str && b.k == MVal::Str) {
      AJ::JsonString ja = va.as<AJ::JsonString>(), jb = vb.as<AJ::JsonString>(), kb = wb.as<AJ::JsonString>();
      bool want = a.s == b.s;
      if ((ja == jb) != want || (jb == ja) != want || (ja == kb) != want || (ja != jb) == want || (ja != kb) == want)
        c.violation("equal-with-different-bytes", std::string("JsonString == JsonString is ") + ((ja == jb) ? "true" : "false") + " / " + ((ja == kb) ? "true" : "false") + " (other document), bytes are " + (want ? "identical" : "different"), wit);
      c.count("jsonstring_comparisons");
    }
    // string operands as C++ strings
    if (b.k == MVal::Str) {
      Ref rs = a.k == MVal::Str ? (a.s == b.s ? EQUAL : UNKNOWN) : DIFFER;
      { Ops ab = ops(va, b.s), ba = ops(b.s, va); laws(c, ab, ba, rs, "variant vs std::string: " + wit); if (a.k == MVal::Str && ab.eq && a.s != b.s) c.violation("equal-with-different-bytes", "variant == std::string with different bytes", wit); }
      if (b.s.find('\0') == std::string::npos) { const char* p = b.s.c_str(); Ops ab = ops(va, p), ba = ops(p, va); laws(c, ab, ba, rs, "variant vs const char*: " + wit); }
      { AJ::JsonString js(b.s.data(), b.s.size()); Ops ab = ops(va, js), ba = ops(js, va); laws(c, ab, ba, rs, "variant vs JsonString: " + wit); }
    }
    // C++ string operands that view the variant's OWN bytes (the pointer as<const char*>() / as<JsonString>() hands out, i.e. the
    // document's string node or the linked buffer): same address, full length -> equal; same address, other length -> not equal
    if (j == 1 && a.k == MVal::Str) {
      AJ::JsonString own = va.as<AJ::JsonString>();
      const char* p = own.c_str();
      size_t len = own.size();
      if (p && len == a.s.size()) {
        size_t cuts[] = {len, 0, len ? len - 1 : 0, len / 2};
        for (size_t k : cuts) {
          bool same = k == len;
          Ref rs = same ? EQUAL : UNKNOWN;
          std::string w2 = "variant vs a view of its own storage cut to " + std::to_string(k) + " of " + std::to_string(len) + " bytes: " + wit;
          { AJ::JsonString js(p, k); Ops ab = ops(va, js), ba = ops(js, va); laws(c, ab, ba, rs, "JsonString " + w2); if (!same && ab.eq) c.violation("equal-with-different-bytes", "variant == JsonString(own pointer, shorter length)", w2); }
          { std::string_view sv(p, k); Ops ab = ops(va, sv), ba = ops(sv, va); laws(c, ab, ba, rs, "string_view " + w2); if (!same && ab.eq) c.violation("equal-with-different-bytes", "variant == string_view(own pointer, shorter length)", w2); }
          { AJ::JsonString js(p, k); bool e = wa == js; if (e != same) c.violation("agrees-with-values", "copy of the value in another document vs a view of the first one's storage: == is " + std::to_string(e), w2); }
          c.count("own_storage_views");
        }
        // zero-terminated view of the own bytes: the string up to its first NUL
        { size_t z = strlen(p); bool same = z == len; Ops ab = ops(va, p), ba = ops(p, va); laws(c, ab, ba, same ? EQUAL : UNKNOWN, "const char* view of its own storage: " + wit);
          if (!same && ab.eq) c.violation("equal-with-different-bytes", "variant with an embedded NUL == its own as<const char*>()", wit); }
      }
    }
    c.count("pair_comparisons", 3);
    c.outcome(r == UNKNOWN ? "laws-only" : "laws+value");
    c.nontrivial(index);
    if ((index % 9973) == 0) c.sample(wit);
    return;
  }
  if (c.mode == "containers") {
    Rng r(c.seed, 18, index);
    MVal a = gen_small(r, 0, true), b = a;
    std::string edits;
    int ne = (int)r.below(4);
    for (int k = 0; k < ne; k++) { const char* e = edit_small(r, b); if (strcmp(e, "none")) { edits += edits.empty() ? "" : ","; edits += e; c.count(std::string("edit:") + e); } }
    if (r.chance(1, 6)) b = gen_small(r, 0, true);   // unrelated pair
    Ref rr = deep_eq(a, b);
    std::string wit = "a = " + describe(a, 200) + "   b = " + describe(b, 200) + (edits.empty() ? "" : "   (b = a after " + edits + ")");
    AJ::JsonDocument da, db;
    build(da.to<AJ::JsonVariant>(), a); build(db.to<AJ::JsonVariant>(), b);
    if (r.coin()) { da.clear(); da[0]["x"] = 1; da.remove(0); build(da.to<AJ::JsonVariant>(), a); }   // recycled slots
    AJ::JsonVariantConst va = da.as<AJ::JsonVariantConst>(), vb = db.as<AJ::JsonVariantConst>();
    { Ops ab = ops(va, vb), ba = ops(vb, va); laws(c, ab, ba, rr, "variants: " + wit); }
    { Ops ab = ops(da, db), ba = ops(db, da); laws(c, ab, ba, rr, "documents: " + wit); }
    if (a.k == MVal::Arr && b.k == MVal::Arr) {
      bool e1 = va.as<AJ::JsonArrayConst>() == vb.as<AJ::JsonArrayConst>(), e2 = vb.as<AJ::JsonArrayConst>() == va.as<AJ::JsonArrayConst>();
      bool e3 = da.as<AJ::JsonArray>() == db.as<AJ::JsonArray>();
      if (e1 != e2) c.violation("law-eq-symmetric", "JsonArrayConst a==b differs from b==a", wit);
      if (rr != UNKNOWN && (e1 != (rr == EQUAL) || e3 != e1)) c.violation("agrees-with-values", "JsonArray(Const) == disagrees with element-wise equality", wit);
    }
    if (a.k == MVal::Obj && b.k == MVal::Obj) {
      bool e1 = va.as<AJ::JsonObjectConst>() == vb.as<AJ::JsonObjectConst>(), e2 = vb.as<AJ::JsonObjectConst>() == va.as<AJ::JsonObjectConst>();
      bool e3 = da.as<AJ::JsonObject>() == db.as<AJ::JsonObject>();
      if (e1 != e2) c.violation("law-eq-symmetric", "JsonObjectConst a==b differs from b==a", wit);
      if (rr != UNKNOWN && (e1 != (rr == EQUAL) || e3 != e1)) c.violation("agrees-with-values", "JsonObject(Const) == disagrees with member-wise equality", wit);
    }
    // a container against itself and against its own copy in a third document
    { AJ::JsonDocument dc; dc.set(va); Ops ab = ops(va, dc.as<AJ::JsonVariantConst>()), ba = ops(dc.as<AJ::JsonVariantConst>(), va); Ref self = deep_eq(a, a); laws(c, ab, ba, self, "value vs its copy: " + wit); }
    c.count("pair_comparisons", 3);
    c.outcome(rr == EQUAL ? "containers:equal" : rr == DIFFER ? "containers:differ" : "containers:laws-only");
    c.nontrivial(mix3(mv_hash(a), mv_hash(b), 18));
    if (c.want_sample()) c.sample(wit);
    return;
  }
  // variant x C++ scalars of 12 types
  size_t i = (size_t)index;
  const MVal& m = g_pool[i].m;
  for (int which = 0; which < 2; which++) {
    AJ::JsonVariantConst v = which ? (*g_docB)[i] : (*g_docA)[i];
    static const long long sv[] = {0, 1, -1, 42, -42, 127, 128, 255, 256, -128, -129, 32767, 65535, 65536, 2147483647LL, -2147483648LL, 4294967295LL, 4294967296LL, 9007199254740993LL, 9223372036854775807LL, (-9223372036854775807LL - 1)};
    for (long long x : sv) {
      if (x >= -128 && x <= 127) scalar_side<signed char>(c, v, m, (signed char)x, (long double)x, true, "signed char");
      if (x >= 0 && x <= 255) scalar_side<unsigned char>(c, v, m, (unsigned char)x, (long double)x, true, "unsigned char");
      if (x >= -32768 && x <= 32767) scalar_side<short>(c, v, m, (short)x, (long double)x, true, "short");
      if (x >= 0 && x <= 65535) scalar_side<unsigned short>(c, v, m, (unsigned short)x, (long double)x, true, "unsigned short");
      if (x >= INT32_MIN && x <= INT32_MAX) scalar_side<int>(c, v, m, (int)x, (long double)x, true, "int");
      if (x >= 0 && x <= (long long)UINT32_MAX) scalar_side<unsigned>(c, v, m, (unsigned)x, (long double)x, true, "unsigned");
      scalar_side<long long>(c, v, m, x, (long double)x, true, "long long");
      if (x >= 0) scalar_side<unsigned long long>(c, v, m, (unsigned long long)x, (long double)x, true, "unsigned long long");
      scalar_side<long>(c, v, m, (long)x, (long double)x, true, "long");
      scalar_side<double>(c, v, m, (double)x, (long double)(double)x, false, "double");
      scalar_side<float>(c, v, m, (float)x, (long double)(float)x, false, "float");
    }
    scalar_side<unsigned long long>(c, v, m, 18446744073709551615ull, 18446744073709551615.0L, true, "unsigned long long");
    scalar_side<unsigned long long>(c, v, m, 9223372036854775808ull, 9223372036854775808.0L, true, "unsigned long long");
    for (double x : {0.5, -0.5, 42.5, 1e300, -1e300, 1.8446744073709552e19, 9223372036854775808.0, 3.14, 16777217.0, -16777217.0, 16777219.0, 4294967297.0, 9007199254740993.0}) scalar_side<double>(c, v, m, x, (long double)x, false, "double");
    { Ops ab = ops(v, true), ba = ops(true, v); laws(c, ab, ba, m.k == MVal::Bool ? (m.b ? EQUAL : UNKNOWN) : UNKNOWN, "variant " + describe(m, 60) + " vs bool true"); }
    { Ops ab{v == nullptr, v != nullptr, false, false, false, false}; if (ab.eq != (m.k == MVal::Null)) c.violation("agrees-with-values", "== nullptr disagrees", describe(m, 60)); if (ab.ne == ab.eq) c.violation("law-ne-is-not-eq", "!= nullptr", describe(m, 60)); }
  }
  c.outcome("scalar-row");
  c.nontrivial(index + 1000000007ull);
  if ((index % 37) == 0) c.sample("variant " + describe(m, 80) + " against C++ scalars of 11 types");
}
