// C11 Filtering equals projecting the unfiltered result.
#include "../aj/extract.hpp"
#include "../aj/inspector.hpp"
#include "../aj/spy_alloc.hpp"
#include "../common/driver_main.hpp"
#include "../common/gen_input.hpp"

using namespace vf;

uint64_t vf_total(const std::string&) { return 0; }

static bool truthy(const MVal& f) {
  switch (f.k) { case MVal::Null: return false; case MVal::Bool: return f.b; case MVal::Int: return f.mag != 0; case MVal::Float: return f.f != 0; default: return true; }
}
static bool is_true(const MVal& f) { return (f.k == MVal::Bool && f.b) || (f.k == MVal::Int && !f.neg && f.mag == 1) || (f.k == MVal::Float && f.f == 1.0); }

// projection of a value onto a filter, written from the statement of C11; `removed` = the entry disappears
static MVal project(const MVal& v, const MVal& f, bool& removed) {
  removed = false;
  if (is_true(f)) return v;
  if (!truthy(f)) { removed = true; return MVal::null(); }
  if (f.k == MVal::Obj) {
    if (v.k != MVal::Obj) return MVal::null();
    MVal out = MVal::obj();
    for (auto& kv : v.o) {
      const MVal* mf = f.find(kv.first);
      if (!mf || mf->k == MVal::Null) mf = f.find("*");
      if (!mf) continue;
      bool rem; MVal p = project(kv.second, *mf, rem);
      if (!rem) out.o.emplace_back(kv.first, std::move(p));
    }
    return out;
  }
  if (f.k == MVal::Arr) {
    if (v.k != MVal::Arr) return MVal::null();
    MVal out = MVal::arr();
    if (f.a.empty()) return out;
    for (auto& e : v.a) { bool rem; MVal p = project(e, f.a[0], rem); if (!rem) out.a.push_back(std::move(p)); }
    return out;
  }
  return MVal::null();  // true-ish scalar that is not `true`: admits no kind
}

struct Res { AJ::DeserializationError err; MVal doc; uint64_t requested = 0; size_t peak = 0; bool ok = true; };

static Res run(Ctx& c, const GenInput& in, uint8_t limit, const MVal* filter, int how, const std::string& wit) {
  Res r;
  SpyAllocator sa; sa.fail_above_size = 64u << 20;
  {
    AJ::JsonDocument fdoc;
    if (filter) build(fdoc.to<AJ::JsonVariant>(), *filter);
    AJ::JsonDocument doc(&sa);
    char* p = (char*)malloc(in.bytes.size() ? in.bytes.size() : 1); memcpy(p, in.bytes.data(), in.bytes.size());
    auto nl = AJ::DeserializationOption::NestingLimit(limit);
    sa.reset_counters();
    if (!filter) r.err = in.msgpack ? AJ::deserializeMsgPack(doc, (const char*)p, in.bytes.size(), nl) : AJ::deserializeJson(doc, (const char*)p, in.bytes.size(), nl);
    else if (how == 0) { auto f = AJ::DeserializationOption::Filter(fdoc.as<AJ::JsonVariantConst>()); r.err = in.msgpack ? AJ::deserializeMsgPack(doc, (const char*)p, in.bytes.size(), f, nl) : AJ::deserializeJson(doc, (const char*)p, in.bytes.size(), f, nl); }
    else if (how == 1) { auto f = AJ::DeserializationOption::Filter(fdoc); r.err = in.msgpack ? AJ::deserializeMsgPack(doc, (const char*)p, in.bytes.size(), nl, f) : AJ::deserializeJson(doc, (const char*)p, in.bytes.size(), nl, f); }
    else { AJ::JsonVariantConst fv = fdoc.as<AJ::JsonVariantConst>(); auto f = AJ::DeserializationOption::Filter(fv); std::string s(in.bytes); r.err = in.msgpack ? AJ::deserializeMsgPack(doc, s, f, nl) : AJ::deserializeJson(doc, s, f, nl); }
    free(p);
    r.requested = sa.bytes_requested; r.peak = sa.peak_live_bytes;
    Inspector::Snap sn = Inspector::inspect(doc, doc.overflowed());
    if (!sn.ok) { c.violation("structure", sn.error, wit); r.ok = false; }
    else { ExtractState es; r.doc = extract(doc, &es); if (es.overflow) { c.violation("document-not-traversable", "", wit); r.ok = false; } }
  }
  if (!sa.live.empty()) c.violation("leak-after-destruction", std::to_string(sa.live.size()) + " blocks live", wit);
  if (!sa.errors.empty()) c.violation("allocator-protocol", sa.errors[0], wit);
  return r;
}

void vf_run_case(Ctx& c, uint64_t index) {
  Rng r(c.seed, 11, index);
  bool msgpack = c.mode == "msgpack";
  GenInput in;
  in.msgpack = msgpack;
  if (r.chance(3, 4)) { in.bytes = msgpack ? gen_valid_msgpack(r, 4) : gen_valid_json(r, 4); in.cls = 0; }
  else in = gen_input(r, msgpack);
  uint8_t limit = (uint8_t)(r.chance(1, 6) ? r.below(4) : 30);
  // filters biased towards the shape of the input and towards mismatching shapes
  MVal filter = gen_filter(r);
  if (r.chance(1, 3)) { MVal t = MVal::obj(); t.o.emplace_back("*", filter); if (r.coin()) t.o.emplace_back("a", MVal::boolean(true)); filter = t; }
  else if (r.chance(1, 4)) { MVal t = MVal::arr(); t.a.push_back(filter); filter = t; }
  std::string wit = std::string(input_class_name(in.cls)) + (msgpack ? " msgpack " + hexs(in.bytes.substr(0, 150)) : " json " + printable(in.bytes, 300)) + " limit=" + std::to_string(limit) + " filter=" + describe(filter, 200);
  if (c.want_sample()) c.sample(wit);
  c.nontrivial(fnv1a(in.bytes, mv_hash(filter)));

  Res base = run(c, in, limit, nullptr, 0, wit);
  if (!base.ok) return;
  int how = (int)r.below(3);
  Res filt = run(c, in, limit, &filter, how, wit);
  if (!filt.ok) return;
  c.outcome(std::string("unfiltered:") + err_name(base.err));
  if (base.err == AJ::DeserializationError::Ok) {
    c.count("accepted_inputs");
    if (filt.err != AJ::DeserializationError::Ok) c.violation("filtered-run-fails", std::string("unfiltered run Ok, filtered run returned ") + err_name(filt.err), wit);
    else {
      bool removed; MVal expected = project(base.doc, filter, removed);
      if (removed) expected = MVal::null();
      CmpOpt co; std::string why;
      if (!mv_equal(expected, filt.doc, co, &why)) c.violation("filter-is-not-projection", why + " | expected " + describe(expected, 200) + " | got " + describe(filt.doc, 200) + " | unfiltered " + describe(base.doc, 200), wit);
      else if (!mv_equal(base.doc, filt.doc, co, nullptr)) c.count("projections_that_removed_something");
    }
    // memory: filtering never asks for more than the unfiltered run (both runs read the whole input)
    // total bytes requested fluctuates with the reuse pattern of the string buffer (a key that already exists keeps the buffer for the
    // next key): judged with slack; the peak of live bytes - what the filtered run needs - is judged strictly
    if (filt.requested > base.requested + 256 + base.requested / 8) c.violation("filter-requests-more-memory", "filtered run requested " + std::to_string(filt.requested) + " bytes, unfiltered " + std::to_string(base.requested), wit);
    if (filt.peak > base.peak) c.violation("filter-peak-above-unfiltered", "filtered peak " + std::to_string(filt.peak) + " bytes, unfiltered " + std::to_string(base.peak), wit);
    c.count("memory_comparisons");
  }
  // Filter(true) is the identity on every input, malformed ones included
  MVal t = MVal::boolean(true);
  Res ident = run(c, in, limit, &t, (int)r.below(3), wit);
  if (ident.ok) {
    if (ident.err != base.err) c.violation("filter-true-changes-code", std::string("Filter(true) returns ") + err_name(ident.err) + ", no filter returns " + err_name(base.err), wit);
    else { CmpOpt co; std::string why; if (!mv_equal(base.doc, ident.doc, co, &why)) c.violation("filter-true-changes-document", why, wit); }
    c.count("identity_checks");
  }
}
