// C08 serializeMsgPack emits one conforming MessagePack object equal to the document.
#include "../aj/dest.hpp"
#include "../aj/extract.hpp"
#include "../common/driver_main.hpp"
#include "../common/gen_value.hpp"
#include "../common/refmsgpack.hpp"

using namespace vf;

uint64_t vf_total(const std::string& mode) { return mode == "boundary32" ? 12 : 0; }

static bool c08_equal(const MVal& m, const MVal& t, std::string& why, const std::string& path) {
  auto fail = [&](const std::string& w) { if (why.empty()) why = path + ": " + w; return false; };
  switch (m.k) {
    case MVal::Int:
      if (t.k != MVal::Int || t.neg != m.neg || t.mag != m.mag) return fail("integer " + int_to_string(m.neg, m.mag) + " encoded as " + describe(t, 60));
      return true;
    case MVal::Float: {
      double x = kUseDouble ? m.f : (double)(float)m.f;
      if (t.k == MVal::Float) { if (bits_equal(t.f, x) || (x != x && t.f != t.f)) return true; return fail("float " + describe(MVal::flt(x)) + " encoded as " + describe(t)); }
      if (t.k == MVal::Int) {
        // allowed only for integral values exactly representable as that integer
        long double v = t.as_ld();
        if (x == x && !std::isinf(x) && (long double)x == v && floor(x) == x) return true;
        return fail("float " + describe(MVal::flt(x)) + " encoded as the integer " + describe(t));
      }
      return fail("float encoded as " + describe(t, 60));
    }
    case MVal::Raw: {
      MVal rv; MpDecodeResult rr = mp_decode(m.s, rv);
      if (rr.err != MpErr::Ok || rr.pos != m.s.size()) return true;  // generator only uses one well-formed object per raw
      CmpOpt co; co.mode = Cmp::Exact;
      return mv_equal(rv, t, co, &why, path);
    }
    case MVal::Arr:
      if (t.k != MVal::Arr || t.a.size() != m.a.size()) return fail("array of " + std::to_string(m.a.size()) + " encoded as " + (t.k == MVal::Arr ? "array of " + std::to_string(t.a.size()) : describe(t, 40)));
      for (size_t i = 0; i < m.a.size(); i++) if (!c08_equal(m.a[i], t.a[i], why, path + "[" + std::to_string(i) + "]")) return false;
      return true;
    case MVal::Obj:
      if (t.k != MVal::Obj || t.o.size() != m.o.size()) return fail("map of " + std::to_string(m.o.size()) + " encoded as " + (t.k == MVal::Obj ? "map of " + std::to_string(t.o.size()) : describe(t, 40)));
      for (size_t i = 0; i < m.o.size(); i++) {
        if (t.o[i].first != m.o[i].first) return fail("map key/order differs");
        if (!c08_equal(m.o[i].second, t.o[i].second, why, path + "." + printable(m.o[i].first, 30))) return false;
      }
      return true;
    default: { CmpOpt co; co.mode = Cmp::Exact; return mv_equal(m, t, co, &why, path); }
  }
}

static std::string rnd_bytes(Rng& r, size_t n, bool ascii) { std::string s; s.reserve(n); for (size_t i = 0; i < n; i++) s += ascii ? (char)r.range(0x20, 0x7e) : (char)r.below(256); return s; }

static MVal boundary_value(Rng& r, bool thorough) {
  static const size_t strl[] = {0, 1, 30, 31, 32, 33, 254, 255, 256, 257, 65534, 65535, 65536, 65537};
  static const size_t cnt[] = {0, 1, 14, 15, 16, 17, 65535, 65536};
  static const size_t binl[] = {0, 1, 2, 3, 4, 5, 8, 9, 15, 16, 17, 254, 255, 256, 257, 65535, 65536};
  switch (r.below(6)) {
    case 0: { size_t n = r.pick(strl); if (n > kMaxStringLength) n = kMaxStringLength - r.below(2); return MVal::str(rnd_bytes(r, n, r.coin())); }
    case 1: {
      size_t n = r.pick(cnt); if (n > 1000 && !r.chance(1, thorough ? 4 : 12)) n = r.pick(cnt) % 18;
      if (n + 2 > kMaxSlots) n = kMaxSlots > 20 ? 17 : 3;
      MVal a = MVal::arr(); for (size_t i = 0; i < n; i++) a.a.push_back(MVal::uint(i & 0x7f)); return a;
    }
    case 2: {
      // building a map of n members through obj[key] is quadratic: keep the 65535/65536 cases rare
      size_t n = r.pick(cnt); if (n > 1000 && !(thorough && r.chance(1, 500))) n = r.pick(cnt) % 18;   // map16/map32 boundary (65535/65536 members) only in the thorough tier
      if (2 * n + 2 > kMaxSlots) n = kMaxSlots > 40 ? 17 : 2;
      MVal o = MVal::obj(); for (size_t i = 0; i < n; i++) o.o.emplace_back("k" + std::to_string(i), MVal::boolean(i & 1)); return o;
    }
    case 3: { size_t n = r.pick(binl); if (n + 6 > kMaxStringLength) n = kMaxStringLength > 10 ? kMaxStringLength - 6 - r.below(3) : 1; return r.coin() ? MVal::bin(rnd_bytes(r, n, false)) : MVal::extv((int8_t)r.range(-128, 127), rnd_bytes(r, n, false)); }
    case 4: { GenOpt g; return gen_int(r, g); }
    default: { GenOpt g; g.wide_floats = true; g.allow_nonfinite = true; g.float32_only = !kUseDouble; return MVal::flt(gen_double(r, g)); }
  }
}

void vf_run_case(Ctx& c, uint64_t index) {
  Rng r(c.seed, 8, index);
  MVal model;
  if (c.mode == "boundary32") {
    // the map16/map32 and array16/array32 header boundary, deterministically (building such an object is quadratic: a handful of cases)
    static const size_t ns[] = {65536, 65535, 65537};
    size_t n = ns[(index / 2) % 3];
    if (index % 2 == 0) { model = MVal::obj(); for (size_t i = 0; i < n; i++) model.o.emplace_back("k" + std::to_string(i), MVal::boolean(i & 1)); }
    else { model = MVal::arr(); for (size_t i = 0; i < n; i++) model.a.push_back(MVal::uint(i & 0x7f)); }
    if (index >= 6) { MVal w = MVal::obj(); w.o.emplace_back("outer", model); model = w; }
  } else if (r.chance(1, 3)) {
    model = boundary_value(r, c.tier != 0);
    if (r.chance(1, 3)) { MVal w = MVal::arr(); w.a.push_back(model); w.a.push_back(boundary_value(r, c.tier != 0)); model = w; }
    else if (r.chance(1, 4)) { MVal w = MVal::obj(); w.o.emplace_back(rnd_bytes(r, r.pick({(size_t)0, (size_t)31, (size_t)32, (size_t)255, (size_t)256}), true), model); model = w; }
  } else {
    GenOpt g; g.str_mode = (int)r.below(3); g.allow_binext = true; g.allow_nonfinite = true; g.wide_floats = true; g.float32_only = !kUseDouble;
    g.max_depth = (int)r.range(0, 6); g.max_width = (int)r.range(0, 18);
    model = r.chance(1, 40) ? gen_chain(r, (int)r.range(1, 200), (int)r.below(3)) : gen_value(r, g);
    // raw values holding one well-formed MessagePack object
    if (r.chance(1, 8)) { MVal w = MVal::arr(); w.a.push_back(model); MpEncOpt eo; eo.minimal = false; GenOpt g2; g2.max_depth = 1; w.a.push_back(MVal::raw(mp_encode(gen_value(r, g2), eo, &r))); model = w; }
  }
  if (!within_capacity(model)) { c.outcome("over-capacity"); return; }
  std::string wit = describe(model, 400);
  if (c.want_sample()) c.sample(wit);
  c.nontrivial(mv_hash(model));
  AJ::JsonDocument doc;
  BuildOpt bo; bo.rng = &r;
  if (!build(doc.to<AJ::JsonVariant>(), model, bo) || doc.overflowed()) { c.violation("build-failed", "building the document failed without allocation failure", wit); return; }
  std::string full;
  size_t n0 = AJ::serializeMsgPack(doc, full);
  if (n0 != full.size()) c.violation("count-differs", "serializeMsgPack to std::string returned " + std::to_string(n0) + " but produced " + std::to_string(full.size()), wit);
  size_t meas = AJ::measureMsgPack(doc);
  if (meas != full.size()) c.violation("measure-differs", "measureMsgPack = " + std::to_string(meas) + ", output has " + std::to_string(full.size()) + " bytes", wit);
  MVal t; MpDecodeResult dr = mp_decode(full, t);
  std::string hex = hexs(full.substr(0, 120));
  if (dr.err != MpErr::Ok) { c.violation("output-not-msgpack", "independent decoder rejects the output at byte " + std::to_string(dr.pos), wit + "  bytes=" + hex); return; }
  if (dr.pos != full.size()) { c.violation("output-not-one-object", "decoder consumed " + std::to_string(dr.pos) + " of " + std::to_string(full.size()) + " bytes", wit + "  bytes=" + hex); return; }
  std::string why;
  if (!c08_equal(model, t, why, "$")) { c.violation("output-denotes-other-value", why, wit + "  bytes=" + hex); return; }
  c.outcome("ok");
  auto ser = [&](void* b, size_t cap) { return AJ::serializeMsgPack(doc, b, cap); };
  for (size_t cap : capacities_for(full.size(), r)) {
    c.count("buffer_capacities_checked");
    if (!check_buffer(ser, full, cap, false, why)) { c.violation("buffer-rule", why, wit); break; }
  }
  { std::ostringstream os; size_t n = AJ::serializeMsgPack(doc, os); if (os.str() != full || n != full.size()) c.violation("ostream-differs", "content or count differs", wit); }
  { std::ostringstream os; os.width(8); os.fill('*'); os.setf(std::ios::hex, std::ios::basefield); size_t n = AJ::serializeMsgPack(doc, os); if (os.str() != full || n != full.size()) c.violation("ostream-differs", "std::ostream with width/fill/flags set: content or count differs", wit); }
  { CollectWriter w; size_t n = AJ::serializeMsgPack(doc, w); if (w.data != full || n != full.size()) c.violation("custom-writer-differs", "content or count differs", wit); }
  { size_t lim = (size_t)r.below(full.size() + 2); ShortWriter w(lim); size_t n = AJ::serializeMsgPack(doc, w);
    if (n != w.data.size() || w.data != full.substr(0, std::min(lim, full.size()))) c.violation("short-writer-count", "returned " + std::to_string(n) + ", accepted " + std::to_string(w.data.size()), wit); }
#ifdef VF_ARDUINO_SHIM
  { CollectPrint p; size_t n = AJ::serializeMsgPack(doc, p); if (p.data != full || n != full.size()) c.violation("print-differs", "content or count differs", wit); }
#endif
}
