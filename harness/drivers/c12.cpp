// C12 Numbers survive text: exact integers, bounded error, never a wrong magnitude.
#include "../aj/extract.hpp"
#include "../common/driver_main.hpp"
#include "../common/refjson.hpp"
#include "../common/refnum.hpp"

using namespace vf;

static const uint64_t F32_BLOCK = 4096;

uint64_t vf_total(const std::string& mode) {
  if (mode == "print-f32") return (1ull << 32) / F32_BLOCK;
  return 0;
}

// RFC 8259 number grammar
static bool is_rfc_number(const std::string& s) {
  size_t p = 0, n = s.size();
  if (p < n && s[p] == '-') p++;
  if (p >= n) return false;
  if (s[p] == '0') p++;
  else if (s[p] >= '1' && s[p] <= '9') { while (p < n && isdigit((unsigned char)s[p])) p++; }
  else return false;
  if (p < n && s[p] == '.') { p++; if (p >= n || !isdigit((unsigned char)s[p])) return false; while (p < n && isdigit((unsigned char)s[p])) p++; }
  if (p < n && (s[p] == 'e' || s[p] == 'E')) { p++; if (p < n && (s[p] == '+' || s[p] == '-')) p++; if (p >= n || !isdigit((unsigned char)s[p])) return false; while (p < n && isdigit((unsigned char)s[p])) p++; }
  return p == n;
}

static const double REL_SMALL = kUseDouble ? 1e-6 : 1e-5;   // DESIGN.md don't-care 14 for 32-bit JsonFloat
static const double REL_LARGE = kUseDouble ? 1e-13 : 1e-5;

static void check_deser(Ctx& c, Rng& r) {
  bool rfc = r.chance(3, 4);
  std::string lit = r.chance(1, 4) ? gen_int_literal(r, !rfc) : gen_literal(r, 63, rfc);
  if (lit.size() > 63) return;
  LitInfo li = analyse_literal(lit);
  bool wrap = r.coin();
  std::string text = wrap ? "[" + lit + "]" : lit;
  std::string wit = "deserializeJson text=" + text;
  if (c.want_sample()) c.sample(wit);
  if (li.sig_digits > 1 || !li.is_integer) c.nontrivial(fnv1a(lit));
  AJ::JsonDocument doc;
  auto err = AJ::deserializeJson(doc, text.c_str(), text.size());
  if (err) {
    if (is_rfc_number(lit)) c.violation("rfc-number-rejected", std::string("deserializeJson returned ") + err_name(err), wit);
    c.outcome(std::string("deser-rejected-") + (is_rfc_number(lit) ? "rfc" : "lenient"));
    return;
  }
  AJ::JsonVariantConst v = doc.as<AJ::JsonVariantConst>();
  if (wrap) v = v[0];
  MVal y = extract(v);
  if (li.int_in_range) {
    c.outcome("deser-int");
    if (y.k != MVal::Int || y.mag != (uint64_t)li.mag || y.neg != (li.neg && li.mag != 0))
      c.violation("integer-literal-not-exact", "integer literal " + lit + " parsed to " + describe(y), wit);
    // the same number read as a floating-point value: within one rounding of what the text denotes, whatever integer storage it got
    {
      long double want = li.neg ? -(long double)li.mag : (long double)li.mag;
      double gd = v.as<double>(); float gf = v.as<float>();
      long double tol_d = kUseDouble ? 2e-16L : 1e-7L;
      if (fabsl((long double)gd - want) > tol_d * fabsl(want)) c.violation("integer-literal-as-double", "integer literal " + lit + " reads as<double>() = " + std::to_string(gd), wit);
      if (fabsl((long double)gf - want) > 1e-7L * fabsl(want)) c.violation("integer-literal-as-double", "integer literal " + lit + " reads as<float>() = " + std::to_string(gf), wit);
      c.count("integer_literals_read_as_floating");
    }
    return;
  }
  c.outcome("deser-float");
  if (!y.is_number()) { c.violation("number-became-non-number", "literal " + lit + " became " + describe(y), wit); return; }
  std::string bad = kUseDouble ? judge_parsed(li, y.as_ld(), REL_SMALL, REL_LARGE)
                               : judge_parsed(li, y.as_ld(), REL_SMALL, REL_LARGE, 1.2e-38L, 3.4e38L);  // 32-bit JsonFloat: accuracy promised inside the normal float range
  if (!bad.empty()) c.violation("literal-accuracy", bad + ": " + lit + " -> " + describe(y), wit);
}

static void check_str(Ctx& c, Rng& r) {
  size_t maxlen = std::min<size_t>(kMaxStringLength, r.chance(1, 5) ? 12000 : 120);
  std::string lit = r.chance(1, 4) ? gen_int_literal(r, true) : gen_literal(r, maxlen, false);
  if (lit.size() > kMaxStringLength) return;
  LitInfo li = analyse_literal(lit);
  bool linked = r.coin();
  std::string wit = std::string(linked ? "linked" : "copied") + " string value \"" + (lit.size() > 300 ? lit.substr(0, 150) + "...(" + std::to_string(lit.size()) + " chars)..." + lit.substr(lit.size() - 100) : lit) + "\"";
  if (c.want_sample()) c.sample(wit);
  c.nontrivial(fnv1a(lit));
  // exactly sized heap block for the linked case
  char* blk = (char*)malloc(lit.size() + 1); memcpy(blk, lit.c_str(), lit.size() + 1);
  {
    AJ::JsonDocument doc;
    if (linked) doc.set((const char*)blk); else doc.set(lit);
    if (doc.overflowed()) { free(blk); c.outcome("str-nomem"); return; }
    double d = doc.as<double>();
    float f = doc.as<float>();
    c.outcome(linked ? "str-linked" : "str-copied");
    LitInfo lid = li;
    std::string bad = judge_parsed(lid, (long double)d, 1e-6, 1e-13);
    if (kUseDouble && !bad.empty()) c.violation("string-to-double-accuracy", bad + ": as<double>() = " + describe(MVal::flt(d)), wit);
    // float: nearest representable => within 1e-6 relative inside the normal float range
    long double a = fabsl(li.v);
    if (f != f) c.violation("string-to-float-nan", "as<float>() is NaN", wit);
    else if (a >= 1.2e-38L && a <= 3.4e38L) {
      if (std::isinf(f) || fabsl((long double)f - li.v) > 1.2e-6L * a) c.violation("string-to-float-accuracy", "as<float>() = " + describe(MVal::flt(f)) + " for a literal inside the float range", wit);
    } else if (a > 3.4e38L) {
      if (!std::isinf(f) && fabsl((long double)f - li.v) > 1.2e-6L * a) c.violation("string-to-float-magnitude", "as<float>() = " + describe(MVal::flt(f)) + " for a literal above FLT_MAX", wit);
    } else {
      if (fabsl((long double)f) > 2e-38L) c.violation("string-to-float-magnitude", "as<float>() = " + describe(MVal::flt(f)) + " for a literal below FLT_MIN", wit);
    }
    if (li.int_in_range) {
      int64_t i = doc.as<int64_t>(); uint64_t u = doc.as<uint64_t>();
      bool fits_i = li.neg ? li.mag <= ((unsigned __int128)1 << 63) : li.mag < ((unsigned __int128)1 << 63);
      bool fits_u = !li.neg || li.mag == 0;
      int64_t ei = fits_i ? (li.neg ? (int64_t)(~(uint64_t)li.mag + 1) : (int64_t)(uint64_t)li.mag) : 0;
      uint64_t eu = fits_u ? (uint64_t)li.mag : 0;
      if (i != ei) c.violation("string-to-int64", "as<int64_t>() = " + std::to_string(i) + ", expected " + std::to_string(ei), wit);
      if (u != eu) c.violation("string-to-uint64", "as<uint64_t>() = " + std::to_string(u) + ", expected " + std::to_string(eu), wit);
    }
  }
  free(blk);
}

static void check_print_int(Ctx& c, Rng& r) {
  AJ::JsonDocument doc;
  char buf[64];
  for (int k = 0; k < 64; k++) {
    MVal m;
    { GenOpt g; m = gen_int(r, g); }
    BuildOpt bo; bo.rng = &r;
    build(doc.to<AJ::JsonVariant>(), m, bo);
    size_t n = AJ::serializeJson(doc, buf, sizeof buf);
    std::string got(buf, n), exp = int_to_string(m.neg, m.mag);
    c.nontrivial(mv_hash(m));
    if (got != exp) c.violation("integer-print-not-exact", "printed " + got + " for " + exp, "doc.set(" + exp + "); serializeJson");
  }
  c.outcome("print-int", 64);
  if (c.want_sample()) c.sample("64 boundary-weighted integers printed through serializeJson");
}

template <typename T>
static void check_print_one(Ctx& c, AJ::JsonDocument& doc, T x, const char* what) {
  char buf[96];
  doc.set(x);
  size_t n = AJ::serializeJson(doc, buf, sizeof buf);
  std::string got(buf, n);
  char xs[64]; snprintf(xs, sizeof xs, "%.17g", (double)x);
  if (x != x || std::isinf(x)) {
    if (got != "null") c.violation("nonfinite-not-null", std::string("non-finite ") + what + " printed as " + got, std::string("doc.set(") + xs + ")");
    return;
  }
  if (!is_rfc_number(got)) { c.violation("printed-float-not-a-number", std::string(what) + " " + xs + " printed as \"" + printable(got) + "\"", std::string("doc.set(") + xs + ")"); return; }
  long double v = strtold(got.c_str(), nullptr);
  bool as_float = sizeof(T) == 4 || !kUseDouble || (double)(float)x == (double)x;
  long double tol = (as_float ? 1e-6L : 1e-9L) * std::max<long double>(1.0L, fabsl((long double)x));
  // the decimal literal itself is exact; allow one part in 1e7 of slack on the bound for the reference's own rounding
  if (fabsl(v - (long double)x) > tol * 1.0000001L)
    c.violation("printed-float-accuracy", std::string(what) + " " + xs + " printed as " + got, std::string("doc.set((") + what + ")" + xs + ")");
}

static void check_print_f32(Ctx& c, uint64_t index) {
  // bijective scattering of the block index so that a prefix of the index space already spans all exponents
  uint64_t nblocks = (1ull << 32) / F32_BLOCK;
  uint64_t block = (index * 0x9E3779B1ull) % nblocks;
  AJ::JsonDocument doc;
  for (uint64_t k = 0; k < F32_BLOCK; k++) {
    uint32_t bits = (uint32_t)(block * F32_BLOCK + k);
    float f; memcpy(&f, &bits, 4);
    check_print_one(c, doc, f, "float");
  }
  c.outcome("print-f32", F32_BLOCK);
  c.count("floats_printed", F32_BLOCK);
  c.nontrivial(block);
  if (c.want_sample()) { char b[64]; snprintf(b, sizeof b, "float bit patterns 0x%08x..0x%08x", (unsigned)(block * F32_BLOCK), (unsigned)(block * F32_BLOCK + F32_BLOCK - 1)); c.sample(b); }
}

static void check_print_f64(Ctx& c, Rng& r) {
  AJ::JsonDocument doc;
  for (int k = 0; k < 256; k++) {
    double x;
    switch (r.below(6)) {
      case 0: { uint64_t b = r.next(); memcpy(&x, &b, 8); break; }
      case 1: { // every exponent, structured mantissas
        uint64_t e = r.below(2047), m;
        switch (r.below(4)) { case 0: m = 0; break; case 1: m = (1ull << 52) - 1; break; case 2: m = 1ull << r.below(52); break; default: m = r.next() & ((1ull << 52) - 1); }
        uint64_t b = (r.coin() ? 1ull << 63 : 0) | (e << 52) | m; memcpy(&x, &b, 8); break;
      }
      case 2: x = pow(10.0, (double)r.range(-300, 300)) * (r.coin() ? 1.0 : (1.0 + (double)r.range(-3, 3) * 1e-15)); break;
      case 3: x = ldexp(1.0, (int)r.range(-1000, 1000)) + (double)r.range(-3, 3); break;
      case 4: { GenOpt g; g.wide_floats = true; x = gen_double(r, g); break; }
      default: x = (double)r.range(-2000000000, 2000000000) / 1000.0; break;
    }
    if (x == x && !std::isinf(x) && x != 0 && (fabs(x) < 1e-300 || fabs(x) > 1e300)) continue;  // outside the range of the statement
    if (!kUseDouble && x == x && !std::isinf(x) && x != 0 && (fabs(x) < 1.2e-38 || fabs(x) > 3.4e38)) continue;  // 32-bit JsonFloat cannot hold it
    c.nontrivial((uint64_t)fnv1a(&x, 8));
    check_print_one(c, doc, x, "double");
  }
  c.outcome("print-f64", 256);
  if (c.want_sample()) c.sample("256 doubles over all exponents printed through serializeJson");
}

void vf_run_case(Ctx& c, uint64_t index) {
  Rng r(c.seed, 12, index);
  if (c.mode == "deser") check_deser(c, r);
  else if (c.mode == "str") check_str(c, r);
  else if (c.mode == "print-int") check_print_int(c, r);
  else if (c.mode == "print-f32") check_print_f32(c, index);
  else if (c.mode == "print-f64") check_print_f64(c, r);
}
