// C13 Typed extraction is exact when it fits and zero otherwise, never undefined.
#include <limits>
#include "../aj/extract.hpp"
#include "../common/driver_main.hpp"
#include "../common/gen_value.hpp"
#include "../common/refnum.hpp"

using namespace vf;

static const uint64_t BLK = 65536;

uint64_t vf_total(const std::string& mode) {
  if (mode == "store32") return 3ull * ((1ull << 32) / BLK);
  return 0;
}

struct Bad { std::string what; };

// v: the stored number as long double (exact for every int64/uint64/float/double); is_int: stored as an integer
template <typename T>
static bool check_integral(AJ::JsonVariantConst var, long double v, bool is_int, const char* tname, std::string& why) {
  const long double lo = (long double)std::numeric_limits<T>::min(), hi = (long double)std::numeric_limits<T>::max();
  bool in_range = v >= lo && v <= hi;   // NaN => false
  T expect = in_range ? (T)truncl(v) : (T)0;
  T got = var.as<T>();
  if (got != expect) { why = std::string("as<") + tname + ">() = " + std::to_string((long long)got) + ", expected " + std::to_string((long long)expect); return false; }
  bool is_expect = is_int && in_range;
  if (var.is<T>() != is_expect) { why = std::string("is<") + tname + ">() = " + (var.is<T>() ? "true" : "false") + ", expected " + (is_expect ? "true" : "false"); return false; }
  T dflt = (T)37;
  T orv = var | dflt;
  if (orv != (is_expect ? expect : dflt)) { why = std::string("operator| with ") + tname + " default disagrees"; return false; }
  return true;
}

template <typename F>
static bool check_floating(AJ::JsonVariantConst var, long double v, const char* tname, std::string& why) {
  F expect = (F)v;   // round to nearest representable (IEEE default rounding)
  F got = var.as<F>();
  bool same = (got == expect) || (got != got && expect != expect);
  if (!kUseDouble && sizeof(F) == 8) same = same || (double)(float)v == (double)got;
  if (!same) { char b[160]; snprintf(b, sizeof b, "as<%s>() = %.17g, expected %.17g", tname, (double)got, (double)expect); why = b; return false; }
  if (!var.is<F>()) { why = std::string("is<") + tname + ">() false for a number"; return false; }
  return true;
}

static bool check_all(AJ::JsonVariantConst var, long double v, bool is_int, std::string& why) {
  return check_integral<int8_t>(var, v, is_int, "int8_t", why) && check_integral<uint8_t>(var, v, is_int, "uint8_t", why) &&
         check_integral<int16_t>(var, v, is_int, "int16_t", why) && check_integral<uint16_t>(var, v, is_int, "uint16_t", why) &&
         check_integral<int32_t>(var, v, is_int, "int32_t", why) && check_integral<uint32_t>(var, v, is_int, "uint32_t", why) &&
         check_integral<int64_t>(var, v, is_int, "int64_t", why) && check_integral<uint64_t>(var, v, is_int, "uint64_t", why) &&
         check_integral<long>(var, v, is_int, "long", why) && check_integral<unsigned long>(var, v, is_int, "unsigned long", why) &&
         check_floating<float>(var, v, "float", why) && check_floating<double>(var, v, "double", why);
}

static void store32(Ctx& c, uint64_t index) {
  uint64_t per = (1ull << 32) / BLK;
  int kind = (int)(index % 3);
  uint64_t blk = ((index / 3) * 0x9E3779B1ull) % per;   // scatter: a prefix of the index space already spans the whole range
  AJ::JsonDocument doc;
  const char* kn = kind == 0 ? "int32" : kind == 1 ? "uint32" : "float";
  for (uint64_t k = 0; k < BLK; k++) {
    uint32_t bits = (uint32_t)(blk * BLK + k);
    long double v; bool is_int = true;
    if (kind == 0) { int32_t x; memcpy(&x, &bits, 4); doc.set(x); v = x; }
    else if (kind == 1) { doc.set(bits); v = bits; }
    else { float f; memcpy(&f, &bits, 4); doc.set(f); v = f; is_int = false; }
    std::string why;
    if (!check_all(doc.as<AJ::JsonVariantConst>(), v, is_int, why)) {
      char w[128]; snprintf(w, sizeof w, "stored %s with bit pattern 0x%08x (%.9Lg)", kn, bits, v);
      c.violation("conversion", why, w);
      if (c.violations > 40) return;
    }
  }
  c.count("values_converted", BLK);
  c.count("conversions", BLK * 12);
  c.nontrivial(index);
  c.outcome(std::string("store32:") + kn, BLK);
  if (c.want_sample()) { char b[96]; snprintf(b, sizeof b, "%s bit patterns 0x%08x..0x%08x x 12 target types", kn, (unsigned)(blk * BLK), (unsigned)(blk * BLK + BLK - 1)); c.sample(b); }
}

static void store64(Ctx& c, Rng& r) {
  AJ::JsonDocument doc;
  for (int k = 0; k < 2048; k++) {
    unsigned kind = (unsigned)r.below(3);
    long double v; bool is_int = true; char w[128];
    if (kind == 0) {
      uint64_t x = r.coin() ? gen_boundary_u64(r) : (r.next() >> r.below(64));
      if (r.chance(1, 8)) { static const uint64_t lim[] = {0x7f, 0x80, 0xff, 0x100, 0x7fff, 0x8000, 0xffff, 0x10000, 0x7fffffffull, 0x80000000ull, 0xffffffffull, 0x100000000ull, 0x7fffffffffffffffull, 0x8000000000000000ull, 0xffffffffffffffffull}; x = r.pick(lim) + (uint64_t)r.range(-2, 2); }
      doc.set(x); v = x; snprintf(w, sizeof w, "stored uint64 %llu", (unsigned long long)x);
    } else if (kind == 1) {
      int64_t x = (int64_t)(r.coin() ? gen_boundary_u64(r) : (r.next() >> r.below(64)));
      if (r.coin()) x = (int64_t)(0 - (uint64_t)x);
      doc.set(x); v = x; snprintf(w, sizeof w, "stored int64 %lld", (long long)x);
    } else {
      double x;
      switch (r.below(5)) {
        case 0: { static const int ks[] = {7, 8, 15, 16, 31, 32, 53, 63, 64}; x = ldexp(1.0, r.pick(ks)); int d = (int)r.range(-3, 3); for (int i = 0; i < abs(d); i++) x = nextafter(x, d < 0 ? -INFINITY : INFINITY); if (r.coin()) x += (double)r.range(-2, 2) * 0.5; if (r.coin()) x = -x; break; }
        case 1: { uint64_t b = r.next(); memcpy(&x, &b, 8); break; }
        case 2: x = (double)r.range(-70000, 70000) + r.unit(); break;
        case 3: { static const double sp[] = {0.0, -0.0, 0.5, -0.5, 0.999999, -0.999999, 255.5, 255.999, -128.5, -129.0, 65535.9, 4294967295.5, 4294967296.0, 9223372036854775807.0, 9223372036854774784.0, 18446744073709551615.0, 18446744073709549568.0, 1e19, 2e19, -9223372036854775808.0, -9223372036854777856.0, INFINITY, -INFINITY, NAN, 1e300, -1e300, 3.4028234e38, 3.5e38, 1e-320}; x = r.pick(sp); break; }
        default: { GenOpt g; g.wide_floats = true; g.allow_nonfinite = true; x = gen_double(r, g); }
      }
      if (!kUseDouble) x = (double)(float)x;
      doc.set(x); v = x; is_int = false; snprintf(w, sizeof w, "stored double %.17g", x);
    }
    std::string why;
    if (!check_all(doc.as<AJ::JsonVariantConst>(), v, is_int, why)) { c.violation("conversion", why, w); if (c.violations > 40) return; }
    uint64_t h; double dv = (double)v; memcpy(&h, &dv, 8); c.nontrivial(h ^ kind);
  }
  c.count("values_converted", 2048); c.count("conversions", 2048 * 12);
  c.outcome("store64", 2048);
  if (c.want_sample()) c.sample("2048 boundary-weighted 64-bit integers and doubles x 12 target types");
}

// numeric strings convert by the same rule, whatever their length
static void strings(Ctx& c, Rng& r) {
  size_t maxlen = std::min<size_t>(kMaxStringLength, r.chance(1, 6) ? 6000 : 100);
  std::string lit = r.chance(1, 3) ? gen_int_literal(r, true) : gen_literal(r, maxlen, false);
  if (r.chance(1, 12)) {   // few significant digits with an exponent at the edges of the float and double ranges
    static const int edge[] = {36, 37, 38, 39, 40, 44, 45, -36, -37, -38, -39, -44, -45, 22, 23, 300, 305, -300, -305};
    char buf[48]; snprintf(buf, sizeof buf, "%s%d%s%de%d", r.coin() ? "-" : "", (int)r.range(1, 99), r.coin() ? "." : "", (int)r.below(100000), r.pick(edge));
    lit = buf; if (lit.find(".") != std::string::npos && lit[lit.find(".") + 1] == 'e') lit.insert(lit.find(".") + 1, "0");
  }
  if (lit.size() > kMaxStringLength) return;
  LitInfo li = analyse_literal(lit);
  AJ::JsonDocument doc;
  bool linked = r.coin();
  char* blk = (char*)malloc(lit.size() + 1); memcpy(blk, lit.c_str(), lit.size() + 1);
  if (linked) doc.set((const char*)blk); else doc.set(lit);
  std::string wit = std::string(linked ? "linked" : "copied") + " string \"" + (lit.size() > 200 ? lit.substr(0, 100) + "...(" + std::to_string(lit.size()) + ")" : lit) + "\"";
  if (c.want_sample()) c.sample(wit);
  c.nontrivial(fnv1a(lit));
  auto var = doc.as<AJ::JsonVariantConst>();
  // the value the string denotes (C12); conversions of that value by the rule of this property
  long double v = li.int_in_range ? (li.neg ? -(long double)li.mag : (long double)li.mag) : li.v;
  auto near_edge = [&](long double lim) { return fabsl(v - lim) <= 1e-6L * fabsl(lim) + 1.0L; };   // don't-care 9
  auto judge = [&](const char* tname, long double lo, long double hi, long long got_s, unsigned long long got_u, bool is_signed) {
    if (!li.int_in_range && (near_edge(lo) || near_edge(hi) || fabsl(v - roundl(v)) < 1e-6L * std::max<long double>(1, fabsl(v)))) return;
    bool in_range = v >= lo && v <= hi;
    long double e = in_range ? truncl(v) : 0;
    long double g = is_signed ? (long double)got_s : (long double)got_u;
    if (g != e) c.violation("string-conversion", std::string("as<") + tname + ">() = " + (is_signed ? std::to_string(got_s) : std::to_string(got_u)) + " for a string denoting " + std::to_string((double)v), wit);
  };
  judge("int8_t", -128, 127, var.as<int8_t>(), 0, true);
  judge("uint8_t", 0, 255, 0, var.as<uint8_t>(), false);
  judge("int16_t", -32768, 32767, var.as<int16_t>(), 0, true);
  judge("uint16_t", 0, 65535, 0, var.as<uint16_t>(), false);
  judge("int32_t", -2147483648.0L, 2147483647.0L, var.as<int32_t>(), 0, true);
  judge("uint32_t", 0, 4294967295.0L, 0, var.as<uint32_t>(), false);
  judge("int64_t", -9223372036854775808.0L, 9223372036854775807.0L, var.as<int64_t>(), 0, true);
  judge("uint64_t", 0, 18446744073709551615.0L, 0, var.as<uint64_t>(), false);
  if (var.is<int>() || var.is<double>()) c.violation("string-conversion", "is<int>()/is<double>() true for a string value", wit);
  // floating-point targets: the nearest representable value (judged with C12's 1e-6 bound; 1e-5 for a 32-bit JsonFloat), never an infinity for a finite in-range number
  {
    long double a = fabsl(v);
    double gd = var.as<double>(); float gf = var.as<float>();
    double tol = kUseDouble ? 1e-6 : 1e-5;
    long double dlo = kUseDouble ? 1e-300L : 1.2e-37L, dhi = kUseDouble ? 1e300L : 3.3e38L;
    if (a == 0 || (a >= dlo && a <= dhi)) {
      if (std::isinf(gd) || gd != gd || fabsl((long double)gd - v) > tol * a) c.violation("string-conversion", "as<double>() = " + std::to_string(gd) + " for a string denoting " + std::to_string((double)v), wit);
      c.count("string_to_double_checks");
    }
    if (a == 0 || (a >= 1.2e-37L && a <= 3.3e38L)) {
      if (std::isinf(gf) || gf != gf || fabsl((long double)gf - v) > tol * a) c.violation("string-conversion", "as<float>() = " + std::to_string(gf) + " for a string denoting " + std::to_string((double)v), wit);
    }
  }
  c.outcome(linked ? "string-linked" : "string-copied");
  doc.clear();
  free(blk);
}

template <typename T, size_t N>
static void copy1d(Ctx& c, Rng& r, const char* tname) {
  AJ::JsonDocument doc;
  size_t n = (size_t)r.below(2 * N + 1);
  std::vector<long long> src;
  for (size_t i = 0; i < n; i++) { long long v = r.range(-100, 100); src.push_back(v); doc.add(v); }
  struct { T guard0[4]; T dst[N]; T guard1[4]; } box;
  memset(&box, 0x5A, sizeof box);
  size_t cnt = AJ::copyArray(doc, box.dst);
  std::string wit = std::string("copyArray of ") + std::to_string(n) + " elements into " + tname + "[" + std::to_string(N) + "]";
  if (cnt != std::min(n, N)) c.violation("copyarray-count", "returned " + std::to_string(cnt), wit);
  unsigned char* g0 = (unsigned char*)box.guard0; unsigned char* g1 = (unsigned char*)box.guard1;
  for (size_t i = 0; i < sizeof box.guard0; i++) if (g0[i] != 0x5A || g1[i] != 0x5A) { c.violation("copyarray-overflow", "guard element modified", wit); break; }
  for (size_t i = 0; i < std::min(n, N); i++) {
    long double v = src[i]; bool in = v >= (long double)std::numeric_limits<T>::lowest() && v <= (long double)std::numeric_limits<T>::max();
    if (box.dst[i] != (in ? (T)src[i] : (T)0)) { c.violation("copyarray-value", "element " + std::to_string(i) + " differs", wit); break; }
  }
  // exactly sized heap destination (ASan), pointer + length overload
  size_t m = (size_t)r.below(N + 3);
  T* heap = (T*)malloc(m ? m * sizeof(T) : 1);
  size_t cnt2 = AJ::copyArray(doc.as<AJ::JsonArrayConst>(), heap, m);
  if (cnt2 != std::min(n, m)) c.violation("copyarray-count", "pointer+length overload returned " + std::to_string(cnt2) + " for " + std::to_string(n) + " elements into " + std::to_string(m), wit);
  free(heap);
  c.count("copyarray_calls", 2);
}

static void copyarray(Ctx& c, Rng& r) {
  copy1d<int, 5>(c, r, "int"); copy1d<uint8_t, 3>(c, r, "uint8_t"); copy1d<double, 4>(c, r, "double"); copy1d<int64_t, 1>(c, r, "int64_t"); copy1d<float, 7>(c, r, "float");
  // 2-D
  {
    AJ::JsonDocument doc; size_t rows = (size_t)r.below(5);
    for (size_t i = 0; i < rows; i++) { AJ::JsonArray a = doc.add<AJ::JsonArray>(); size_t cols = (size_t)r.below(6); for (size_t j = 0; j < cols; j++) a.add((int)(i * 10 + j)); }
    struct { int g0[4]; int dst[3][4]; int g1[4]; } box; memset(&box, 0x5A, sizeof box);
    AJ::copyArray(doc, box.dst);
    for (int i = 0; i < 4; i++) if (box.g0[i] != 0x5A5A5A5A || box.g1[i] != 0x5A5A5A5A) { c.violation("copyarray-overflow", "2-D copy modified a guard element", "copyArray into int[3][4]"); break; }
  }
  // string destinations: strings longer / shorter than the buffer, non-string elements
  {
    AJ::JsonDocument doc; size_t n = (size_t)r.below(6);
    std::vector<std::string> src;
    for (size_t i = 0; i < n; i++) {
      if (r.chance(1, 4)) { doc.add((int)i); src.push_back(""); continue; }
      if (r.chance(1, 8)) { doc.add(nullptr); src.push_back(""); continue; }
      std::string s((size_t)r.below(14), 'a' + (char)i); doc.add(s); src.push_back(s);
    }
    struct { char g0[8]; char dst[4][8]; char g1[8]; } box; memset(&box, 0x5A, sizeof box);
    size_t cnt = AJ::copyArray(doc, box.dst);
    std::string wit = "copyArray of " + std::to_string(n) + " strings/values into char[4][8]";
    if (cnt != std::min<size_t>(n, 4)) c.violation("copyarray-count", "returned " + std::to_string(cnt), wit);
    for (int i = 0; i < 8; i++) if (box.g0[i] != 0x5A || box.g1[i] != 0x5A) { c.violation("copyarray-overflow", "string copy modified a guard byte", wit); break; }
    for (size_t i = 0; i < std::min<size_t>(n, 4); i++) {
      std::string e = src[i].substr(0, 7);
      if (std::string(box.dst[i]) != e) { c.violation("copyarray-value", "string element " + std::to_string(i) + " is \"" + printable(std::string(box.dst[i], strnlen(box.dst[i], 8))) + "\", expected \"" + e + "\"", wit); break; }
    }
    c.count("copyarray_calls");
  }
  c.outcome("copyarray");
  c.nontrivial(r.next());
}

void vf_run_case(Ctx& c, uint64_t index) {
  Rng r(c.seed, 13, index);
  if (c.mode == "store32") store32(c, index);
  else if (c.mode == "store64") store64(c, r);
  else if (c.mode == "strings") strings(c, r);
  else copyarray(c, r);
}
