// C20 Distinct documents can be used from distinct threads without synchronisation.
// Build flavours: tsan (race detector is the oracle) and plain -O2 (sequential-equivalence under contention).
#include <pthread.h>
#include <sched.h>
#include <atomic>
#include <mutex>
#include <set>
#include <thread>
#include "../aj/apply.hpp"
#include "../common/driver_main.hpp"
#include "../common/gen_input.hpp"

using namespace vf;

uint64_t vf_total(const std::string&) { return 0; }

#if defined(__SANITIZE_THREAD__)
#  define VF_TSAN 1
extern "C" int __tsan_get_report_data(void* report, const char** description, int* count, int* stack_count, int* mop_count, int* loc_count, int* mutex_count, int* thread_count,
                                      int* unique_tid_count, void** sleep_trace, unsigned long trace_size);
extern "C" int __tsan_get_report_mop(void* report, unsigned long idx, int* tid, void** addr, int* size, int* write, int* atomic, void** trace, unsigned long trace_size);
extern "C" void __sanitizer_symbolize_pc(void* pc, const char* fmt, char* out_buf, unsigned long out_buf_size);
#else
#  define VF_TSAN 0
#endif

// ThreadSanitizer reports: the report hook runs inside the runtime (its locks held), so it only copies raw program
// counters into a preallocated table with atomics; symbolisation happens after the threads have been joined.
static const int MAXREP = 128, MAXPC = 24;
struct RawReport { void* pcs[2][MAXPC]; int write[2]; int mops; };
static RawReport g_raw[MAXREP];
static std::atomic<int> g_report_count{0};

#if VF_TSAN
extern "C" void __tsan_on_report(void* rep) {
  int idx = g_report_count.fetch_add(1);
  if (idx >= MAXREP) return;
  const char* desc = ""; int count = 0, stacks = 0, mops = 0, locs = 0, mutexes = 0, threads = 0, utids = 0; void* sleep_trace[4];
  __tsan_get_report_data(rep, &desc, &count, &stacks, &mops, &locs, &mutexes, &threads, &utids, sleep_trace, 4);
  RawReport& r = g_raw[idx];
  r.mops = mops > 2 ? 2 : mops;
  for (int m = 0; m < r.mops; m++) {
    int tid, size, atomic; void* addr;
    for (int i = 0; i < MAXPC; i++) r.pcs[m][i] = nullptr;
    __tsan_get_report_mop(rep, (unsigned long)m, &tid, &addr, &size, &r.write[m], &atomic, r.pcs[m], MAXPC);
  }
}

static std::string describe_report(const RawReport& r, bool& lib) {
  std::string text = "data race:";
  lib = false;
  for (int m = 0; m < r.mops; m++) {
    text += r.write[m] ? " [write" : " [read";
    int shown = 0;
    for (int i = 0; i < MAXPC && r.pcs[m][i] && shown < 6; i++) {
      char buf[512]; buf[0] = 0;
      __sanitizer_symbolize_pc(r.pcs[m][i], "%f %s", buf, sizeof buf);
      std::string f = buf;
      bool inlib = f.find("/src/ArduinoJson/") != std::string::npos;
      if (inlib) lib = true;
      if (inlib || shown < 2) { size_t sp = f.find(' '); std::string fn = f.substr(0, sp); size_t par = fn.find('('); if (par != std::string::npos) fn = fn.substr(0, par); size_t sl = f.rfind('/'); text += " " + fn.substr(0, 80) + "@" + (sl == std::string::npos ? "" : f.substr(sl + 1)); shown++; }
    }
    text += "]";
  }
  return text;
}
#endif

static inline uint64_t rdtsc() { unsigned lo, hi; __asm__ __volatile__("rdtsc" : "=a"(lo), "=d"(hi)); return ((uint64_t)hi << 32) | lo; }

struct Shared {
  AJ::JsonDocument doc;       // read by every thread through const access only
  AJ::JsonDocument filter;
  std::string json_text;
};

struct ThreadLog { std::vector<uint64_t> stamps; };

// One thread's workload: a pure function of (seed, index, tid) and of the shared read-only documents.
static uint64_t thread_work(uint64_t seed, uint64_t index, int tid, const Shared& sh, bool delays, ThreadLog* tl, std::string* failure) {
  Rng r(seed, 200 + (uint64_t)tid, index);
  Rng rd(seed, 400 + (uint64_t)tid, index);   // delays draw from their own stream: the workload itself must not depend on them
  uint64_t dig = 0xcbf29ce484222325ull;
  const AJ::JsonDocument& shared = sh.doc;
  AJ::JsonVariantConst sfilter = sh.filter.as<AJ::JsonVariantConst>();
  auto pause = [&]() { if (tl) tl->stamps.push_back(rdtsc()); if (!delays) return; unsigned w = (unsigned)rd.below(8); if (w == 0) sched_yield(); else if (w < 3) { volatile unsigned spin = (unsigned)rd.below(300); while (spin) spin = spin - 1; } };
  // (1) an API history on this thread's own documents, judged by the model
  {
    HistOpt ho; ho.ndocs = (int)r.range(1, 2); ho.nrefs = 3; ho.key_pool = 4; ho.max_nodes = 40; ho.float32_only = !kUseDouble;
    Model m(ho.ndocs, ho.nrefs);
    AjExec x(ho.ndocs, ho.nrefs, (tid & 1) != 0);
    Rng rx(seed, 300 + (uint64_t)tid, index); x.rng = &rx;
    int steps = (int)r.range(10, 40);
    for (int s = 0; s < steps; s++) {
      Op o = gen_op(r, ho, m);
      adapt_op(o);
      Outcome exp = model_apply(m, o);
      Report rep; rep.violation = [&](const std::string& cl, const std::string& de) { if (failure->empty()) *failure = cl + ": " + de; };
      x.apply(o, exp, m, rep);
      for (size_t k = 0; k < m.refs.size(); k++) if (!m.refs[k].live) x.refs[k] = AJ::JsonVariant();
      if ((o.k == OpK::DeserJson || o.k == OpK::DeserMsgPack) && exp.bound) { MVal* n = m.resolve_read(o.t); AJ::JsonVariantConst v; x.at(o.t, false, [&](auto&& p) { v = p.template as<AJ::JsonVariantConst>(); }); if (n) { m.put(*n, extract(v)); m.sweep(); } }
      for (size_t d = 0; d < x.docs.size(); d++) {
        if (x.docs[d]->overflowed()) { s = steps; break; }
        MVal y = extract(*x.docs[d]); CmpOpt co; std::string why;
        if (!mv_equal(m.docs[d], y, co, &why) && failure->empty()) *failure = "thread " + std::to_string(tid) + ": document differs from the model: " + why;
        std::string js; AJ::serializeJson(*x.docs[d], js); dig = fnv1a(js, dig);
      }
      pause();
    }
  }
  // (2) parsing, printing, converting
  for (int k = 0; k < 6; k++) {
    AJ::JsonDocument d;
    std::string t = gen_valid_json(r, 3);
    auto e = AJ::deserializeJson(d, t, AJ::DeserializationOption::NestingLimit(40));
    dig = fnv1a(e.c_str(), strlen(e.c_str()), dig);
    std::string out; AJ::serializeJsonPretty(d, out); dig = fnv1a(out, dig);
    std::string mp; AJ::serializeMsgPack(d, mp); dig = fnv1a(mp, dig);
    AJ::JsonDocument d2; auto e2 = AJ::deserializeMsgPack(d2, mp, AJ::DeserializationOption::NestingLimit(40)); dig = fnv1a(e2.c_str(), strlen(e2.c_str()), dig);
    double x = gen_double(r, GenOpt()); d.set(x); char buf[64]; size_t n = AJ::serializeJson(d, buf, sizeof buf); dig = fnv1a(buf, n, dig);
    d.set(gen_literal(r, 40)); double back = d.as<double>(); long long il = d.as<long long>(); dig = fnv1a(&back, 8, dig); dig = fnv1a(&il, 8, dig);
    pause();
  }
  // (3) the shared document: copy source, comparison operand, filter, iteration - const access only
  for (int k = 0; k < 4; k++) {
    AJ::JsonDocument mine;
    mine.set(shared);
    std::string js; AJ::serializeJson(mine, js); dig = fnv1a(js, dig);
    bool eq = mine == shared; dig = fnv1a(&eq, 1, dig);
    mine["extra"][k] = shared[(size_t)k];
    mine["copy"] = shared.as<AJ::JsonVariantConst>()["a"];
    size_t cnt = 0; for (AJ::JsonPairConst kv : shared.as<AJ::JsonObjectConst>()) { cnt += kv.key().size() + kv.value().size(); }
    dig = fnv1a(&cnt, sizeof cnt, dig);
    AJ::JsonDocument f; auto e = AJ::deserializeJson(f, sh.json_text, AJ::DeserializationOption::Filter(sfilter)); dig = fnv1a(e.c_str(), strlen(e.c_str()), dig);
    js.clear(); AJ::serializeJson(f, js); dig = fnv1a(js, dig);
    size_t ms = AJ::measureMsgPack(shared) + AJ::measureJsonPretty(shared); dig = fnv1a(&ms, sizeof ms, dig);
    pause();
  }
  return dig;
}

void vf_run_case(Ctx& c, uint64_t index) {
  Rng r(c.seed, 20, index);
  static const int TS[] = {2, 4, 8, 16};
  int T = r.pick(TS);
  Shared sh;
  {
    GenOpt g; g.max_depth = 3; g.dup_keys = false; g.key_nul = false;
    MVal v = MVal::obj(); v.o.emplace_back("a", gen_value(r, g)); v.o.emplace_back("b", MVal::str("shared string")); v.o.emplace_back("list", gen_value(r, g)); v.o.emplace_back("n", MVal::flt(3.25));
    build(sh.doc.to<AJ::JsonVariant>(), v);
    sh.filter["a"] = true; sh.filter["list"][0] = true; sh.filter["*"]["x"] = true;
    RenderOpt ro; sh.json_text = render_json(v, ro);
    sh.doc.shrinkToFit(); sh.filter.shrinkToFit();
  }
  // sequential reference: the same per-thread workloads, one after the other.  In the first round of every process (and one
  // round in four) the concurrent run comes FIRST and the reference afterwards, so that state the library initialises lazily
  // on first use (function-local statics, tables built on demand) is still cold when the threads start.
  static bool s_first_round = true;
  bool concurrent_first = s_first_round || r.chance(1, 4);
  s_first_round = false;
  std::vector<uint64_t> ref((size_t)T);
  std::string fail0;
  auto run_reference = [&]() { for (int t = 0; t < T; t++) ref[(size_t)t] = thread_work(c.seed, index, t, sh, false, nullptr, &fail0); };
  if (!concurrent_first) {
    run_reference();
    if (!fail0.empty()) { c.violation("sequential-run-differs-from-model", fail0, "case " + std::to_string(index)); return; }
  } else c.count("cold_or_concurrent_first_rounds");
  // concurrent run
  std::vector<uint64_t> got((size_t)T); std::vector<std::string> fails((size_t)T); std::vector<ThreadLog> logs((size_t)T);
  std::atomic<int> ready{0}; std::atomic<bool> go{false};
  int reports_before = g_report_count.load();
  std::vector<std::thread> th;
  for (int t = 0; t < T; t++) th.emplace_back([&, t]() {
    ready++; while (!go.load(std::memory_order_acquire)) {}
    got[(size_t)t] = thread_work(c.seed, index, t, sh, true, &logs[(size_t)t], &fails[(size_t)t]);
  });
  while (ready.load() < T) sched_yield();
  go.store(true, std::memory_order_release);
  for (auto& x : th) x.join();
  std::string wit = std::to_string(T) + " threads, case " + std::to_string(index) + " (each: API history on own documents, parse/print/convert, const reads of a shared document)";
  if (concurrent_first) {
    run_reference();
    if (!fail0.empty()) { c.violation("sequential-run-differs-from-model", fail0 + " (reference run after the concurrent run)", wit); return; }
  }
  for (int t = 0; t < T; t++) {
    if (!fails[(size_t)t].empty()) c.violation("concurrent-run-differs-from-model", fails[(size_t)t], wit);
    else if (got[(size_t)t] != ref[(size_t)t]) c.violation("concurrent-run-differs-from-sequential", "thread " + std::to_string(t) + " produced other results than the same workload run alone", wit);
  }
  // ThreadSanitizer reports raised during this case (symbolised now, outside the runtime's report path)
  int nrep = g_report_count.load() - reports_before;
#if VF_TSAN
  if (nrep) {
    std::set<std::string> seen;
    for (int i = reports_before; i < reports_before + nrep && i < MAXREP; i++) {
      bool lib; std::string d = describe_report(g_raw[i], lib);
      if (!seen.insert(d).second) continue;
      c.violation(lib ? "data-race-in-library" : "data-race-in-harness", d, wit);
    }
    c.count("tsan_reports", (uint64_t)nrep);
  }
#else
  (void)nrep;
#endif
  // interleaving diversity: order of (thread) at each recorded point
  {
    std::vector<std::pair<uint64_t, int>> all;
    for (int t = 0; t < T; t++) for (uint64_t s : logs[(size_t)t].stamps) all.push_back({s, t});
    std::sort(all.begin(), all.end());
    uint64_t h = 0xcbf29ce484222325ull; size_t switches = 0;
    for (size_t i = 0; i < all.size(); i++) { unsigned char b = (unsigned char)all[i].second; h = fnv1a(&b, 1, h); if (i && all[i].second != all[i - 1].second) switches++; }
    c.distinct("interleavings", h);
    c.count("thread_switch_points", switches);
    c.count("thread_rounds");
    c.count("threads_run", (uint64_t)T);
    if (switches > 0) c.nontrivial(h);
  }
  c.outcome("threads:" + std::to_string(T));
  c.outcome(VF_TSAN ? "tsan-round" : "plain-round");
  if (c.want_sample()) c.sample(wit);
}
