// C04 The document is the tree its API describes, after every history.
// Also hosts the allocator-ledger monitors of C06 (mode names starting with "c06").
#include "../aj/apply.hpp"
#include "../common/driver_main.hpp"

using namespace vf;

static const int SMALL_A = 16;      // alphabet of the systematic small-scope workload
static int small_len() { const char* e = getenv("VF_SMALL_LEN"); return e ? atoi(e) : 4; }

uint64_t vf_total(const std::string& mode) {
  if (mode.rfind("small", 0) == 0) {
    int L = mode.size() > 5 ? atoi(mode.c_str() + 5) : small_len();
    uint64_t t = 0, p = 1;
    for (int l = 1; l <= L; l++) { p *= SMALL_A; t += p; }
    return t;
  }
  return 0;
}

// Fixed small alphabet on two documents, two keys, tiny indices.
static Op small_op(int d, Model& m) {
  Op o; Step ka, kb, i0, i1; ka.key = "a"; kb.key = "b"; i0.is_key = false; i0.index = 0; i1.is_key = false; i1.index = 1;
  (void)m;
  switch (d) {
    case 0: o.k = OpK::Set; o.t.path = {ka}; o.val = MVal::sint(1); break;
    case 1: o.k = OpK::Set; o.t.path = {ka}; o.val = MVal::str("copied string"); o.strkind = SK_STD; break;
    case 2: o.k = OpK::Set; o.t.path = {kb, ka}; o.val = MVal::flt(2.5e-3); break;              // nested create, double
    case 3: o.k = OpK::Set; o.t.path = {i1}; o.val = MVal::boolean(true); break;                // array write beyond the end
    case 4: o.k = OpK::AddValue; o.val = MVal::uint(0xFFFFFFFFFFull); break;                    // 64-bit => extension slot
    case 5: o.k = OpK::AddValue; o.t.path = {ka}; o.val = MVal::str("copied string"); break;    // shared string
    case 6: o.k = OpK::Remove; o.rm = ka; break;
    case 7: o.k = OpK::Remove; o.rm = i0; break;
    case 8: o.k = OpK::ClearValue; o.t.path = {kb}; break;
    case 9: o.k = OpK::Assign; o.t.path = {ka}; o.src.path = {kb}; break;                      // sibling copy
    case 10: o.k = OpK::ToObject; break;
    case 11: o.k = OpK::ToArray; o.t.path = {ka}; break;
    case 12: o.k = OpK::DocShrink; break;
    case 13: o.k = OpK::DocCopy; o.t.doc = 1; o.aux = 0; break;
    case 14: o.k = OpK::Assign; o.t.path = {kb}; o.src.doc = 1; break;                          // copy from the other document
    default: o.k = OpK::DeserJson; o.text = "{\"a\":[1,\"copied string\"],\"b\":{\"a\":12345678901}}"; {
      MVal v = MVal::obj(); MVal a = MVal::arr(); a.a.push_back(MVal::sint(1)); a.a.push_back(MVal::str("copied string"));
      MVal b = MVal::obj(); b.o.emplace_back("a", MVal::uint(12345678901ull));
      v.o.emplace_back("a", a); v.o.emplace_back("b", b); o.val = v; } break;
  }
  return o;
}

struct CaseRun {
  Ctx& c; Model m; AjExec x; Rng& r; std::vector<std::string> log; bool failed = false; bool c06;
  CaseRun(Ctx& ctx, int nd, int nr, Rng& rng, bool c06mode) : c(ctx), m(nd, nr), x(nd, nr), r(rng), c06(c06mode) { x.rng = &rng; }

  std::string witness() {
    std::string w;
    size_t from = log.size() > 14 ? log.size() - 14 : 0;
    if (from) w += "(" + std::to_string(from) + " earlier steps) ";
    for (size_t i = from; i < log.size(); i++) w += "#" + std::to_string(i) + " " + log[i] + "; ";
    for (size_t d = 0; d < m.docs.size(); d++) w += " model.doc" + std::to_string(d) + "=" + describe(m.docs[d], 200);
    return w;
  }
  std::string context;  // set while an operation of a listed known-finding shape is being executed/judged
  void viol(const std::string& clause, const std::string& detail) { failed = true; c.violation(clause, context + detail, witness()); }

  // Everything observable must equal the model; observation itself must not change anything.
  void check_all(const Op& o) {
    Report rep; rep.violation = [&](const std::string& cl, const std::string& de) { viol(cl, de); };
    uint64_t calls0 = x.alloc_calls();
    std::vector<uint64_t> h0;
    for (size_t d = 0; d < x.docs.size(); d++) {
      Inspector::Snap s = Inspector::inspect(*x.docs[d]);
      if (!s.ok) { viol("structure", "doc" + std::to_string(d) + ": " + s.error); return; }
      if (s.leaked && !x.docs[d]->overflowed()) { viol("structure", "doc" + std::to_string(d) + ": " + std::to_string(s.leaked) + " slots neither reachable nor on the free list although no allocation failed"); return; }
      h0.push_back(s.hash);
      c.distinct("concrete_states", s.hash);
      c.maxcount("max_pools", s.pools);
      if (s.free_slots) c.count("states_with_free_slots");
    }
    for (size_t d = 0; d < x.docs.size(); d++) {
      if (x.docs[d]->overflowed()) {
        Inspector::Snap so = Inspector::inspect(*x.docs[d], true);
        if (so.ok && so.pools >= (size_t)AJ::detail::NULL_SLOT / ARDUINOJSON_POOL_CAPACITY + 1) { x.stop = true; x.stop_reason = "pool table exhausted (C19 known finding)"; }   // slot ids lost to shrinkToFit(): C19's business
        else if (within_capacity(m.docs[d])) viol("spurious-overflow", "doc" + std::to_string(d) + " reports overflowed() although no allocation failed and the content is within the configured limits");
        else { x.stop = true; x.stop_reason = "capacity"; }
        return;
      }
      ExtractState es; ExtractOpt eo; eo.max_nodes = 200000;
      MVal y = extract(*x.docs[d], &es, eo);
      if (es.overflow) { viol("document-not-traversable", "doc" + std::to_string(d) + ": traversal does not end"); return; }
      CmpOpt co; std::string why;
      if (!mv_equal(m.docs[d], y, co, &why)) { viol("document-differs-from-model", "doc" + std::to_string(d) + " " + why + " | library has " + describe(y, 300)); return; }
      if (es.cstr_unterminated) viol("cstr-not-terminated", "a string value is not NUL-terminated at size()");
      c.distinct("model_states", mv_hash(m.docs[d]));
    }
    for (size_t i = 0; i < m.refs.size(); i++) {
      MVal* n = m.ref_node((int)i);
      if (!n) continue;
      MVal y = extract(x.refs[i]);
      CmpOpt co; std::string why;
      if (!mv_equal(*n, y, co, &why)) { viol("reference-designates-other-value", "ref" + std::to_string(i) + " " + why + " | reads " + describe(y, 200) + ", model " + describe(*n, 200)); return; }
      c.count("live_reference_reads");
    }
    // targeted observables
    if (o.k == OpK::Probe || r.chance(1, 4)) {
      AJ::JsonVariantConst v; bool got = false;
      MVal* n = m.resolve_read(o.t);
      if (o.t.ref < 0 || m.ref_node(o.t.ref)) { x.at(o.t, false, [&](auto&& p) { v = p.template as<AJ::JsonVariantConst>(); got = true; }); }
      if (got) { observe_value(v, n, target_str(o.t), rep); c.count("observable_probes"); }
      // read-only serializers / measures / comparisons
      size_t d = (size_t)m.target_doc(o.t);
      std::string s1, s2; AJ::serializeJson(*x.docs[d], s1); AJ::serializeMsgPack(*x.docs[d], s2);
      if (AJ::measureJson(*x.docs[d]) != s1.size()) viol("observable", "measureJson != serializeJson length");
      if (AJ::measureMsgPack(*x.docs[d]) != s2.size()) viol("observable", "measureMsgPack != serializeMsgPack length");
      bool eq = (*x.docs[d] == *x.docs[d]); (void)eq;
    }
    // writes through unbound handles, null keys and null string operands must change nothing, whatever the state of the documents
    // (their boolean results are not judged: don't-care 15)
    if (r.chance(1, 6)) {
      AJ::JsonDocument& D = *x.docs[(size_t)r.below(x.docs.size())];
      AJ::JsonArray ua; AJ::JsonObject uo; AJ::JsonVariant uv;
      ua.add(1); ua.add("s"); ua.add<AJ::JsonObject>(); ua.remove(0); ua.remove(ua.begin()); ua.clear(); (void)ua[0].isNull(); ua[3] = 5; ua[1]["k"] = 2;
      uo["k"] = 1; uo.remove("k"); uo.remove(uo.begin()); uo.clear(); uo[std::string("k")].to<AJ::JsonArray>(); uo["a"][2] = true;
      uv.set(1); uv.set(std::string("copied")); uv.add(2.5); uv["a"]["b"] = 3; uv.to<AJ::JsonArray>(); uv.clear(); uv.remove(0); uv.remove("a");
      uv.set(AJ::MsgPackBinary("ab", 2)); uv.set(AJ::serialized("1")); uv.set(D.as<AJ::JsonVariantConst>());
      bool sane = ua.isNull() && ua.size() == 0 && ua.nesting() == 0 && ua.begin() == ua.end() && uo.isNull() && uo.size() == 0 && uo.begin() == uo.end() && uv.isNull() && uv.isUnbound();
      if (!sane) viol("observable", "an unbound JsonArray / JsonObject / JsonVariant does not read as empty / null after writes through it");
      // null keys: nothing is looked up, nothing is created
      bool n1 = D[(const char*)nullptr].isNull(), n2 = D[AJ::JsonString()].isNull();
      D[(const char*)nullptr] = 1; D[(char*)nullptr] = "x"; D.remove((const char*)nullptr); D[AJ::JsonString()] = 2;
      D.as<AJ::JsonVariant>()[(const char*)nullptr].set(1);
      if (!n1 || !n2) viol("observable", "a member looked up with a null key is not null");
      // unbound container handles equal only unbound handles
      AJ::JsonVariantConst cv = D.as<AJ::JsonVariantConst>();
      bool ea = AJ::JsonArrayConst() == cv.as<AJ::JsonArrayConst>(), ea2 = cv.as<AJ::JsonArrayConst>() == AJ::JsonArrayConst();
      bool eo = AJ::JsonObjectConst() == cv.as<AJ::JsonObjectConst>(), eo2 = cv.as<AJ::JsonObjectConst>() == AJ::JsonObjectConst();
      if (ea != !cv.is<AJ::JsonArrayConst>() || ea2 != ea) viol("observable", "unbound JsonArrayConst == document's array handle is " + std::to_string(ea) + "/" + std::to_string(ea2));
      if (eo != !cv.is<AJ::JsonObjectConst>() || eo2 != eo) viol("observable", "unbound JsonObjectConst == document's object handle is " + std::to_string(eo) + "/" + std::to_string(eo2));
      if (!(AJ::JsonArrayConst() == AJ::JsonArrayConst()) || !(AJ::JsonObjectConst() == AJ::JsonObjectConst())) viol("observable", "two unbound container handles do not compare equal");
      c.count("null_operand_probes");
    }
    // read-only operations change nothing
    if (x.alloc_calls() != calls0) viol("read-only-op-called-allocator", "observation (is/as/iteration/size/nesting/serialize/measure/compare) called the allocator " + std::to_string(x.alloc_calls() - calls0) + " times");
    for (size_t d = 0; d < x.docs.size(); d++) {
      Inspector::Snap s = Inspector::inspect(*x.docs[d]);
      if (s.hash != h0[d]) { viol("read-only-op-changed-state", "concrete state of doc" + std::to_string(d) + " changed during observation"); break; }
    }
  }

  // C06: slots released by removals are reused before a new pool is requested; clear() returns every block
  void c06_monitors(const Op& o, const std::vector<Inspector::Snap>& before) {
    bool doc_level = o.k == OpK::DocCopy || o.k == OpK::DocMove || o.k == OpK::DocSwap || o.k == OpK::DocSetDoc || o.k == OpK::DocClear || o.k == OpK::DocToArray;
    for (size_t d = 0; d < x.docs.size(); d++) {
      Inspector::Snap a = Inspector::inspect(*x.docs[d]);
      if (!a.ok) return;  // reported by check_all
      c.count("slot_reuse_checks");
      // (a text that repeats a key releases the earlier value after the call has already allocated: the order of the two is not visible from here)
      if (!doc_level && !x.docs[d]->overflowed() && !o.text_dup_keys) {
        // every pool but the last is full, and a pool was added only once the free list was exhausted
        if (a.pools > before[d].pools && a.free_slots != 0)
          viol("pool-requested-while-free-slots", "doc" + std::to_string(d) + ": pools " + std::to_string(before[d].pools) + " -> " + std::to_string(a.pools) + " although " + std::to_string(before[d].free_slots) + " released slots were available (free list still has " + std::to_string(a.free_slots) + ")");
        if (a.pools > before[d].pools) c.count("pool_additions_observed");
        if (before[d].free_slots && a.usage == before[d].usage && a.free_slots < before[d].free_slots) c.count("free_slot_reuses_observed");
        if (a.usage > before[d].usage && before[d].free_slots != 0 && a.free_slots != 0 && a.pools == before[d].pools)
          viol("fresh-slot-taken-while-free-slots", "doc" + std::to_string(d) + ": pool usage grew " + std::to_string(before[d].usage) + " -> " + std::to_string(a.usage) + " while the free list was not exhausted");
      }
    }
    if (o.k == OpK::DocClear) {
      // the allocator of the cleared document must hold no block unless another document shares it
      AJ::Allocator* al = x.docs[(size_t)o.t.doc]->allocator();
      bool shared = false;
      for (size_t d = 0; d < x.docs.size(); d++) if ((int)d != o.t.doc && x.docs[d]->allocator() == al) shared = true;
      for (auto& sp : x.allocs) if (sp.get() == al && !shared) {
        c.count("clear_ledger_checks");
        if (!sp->live.empty()) viol("blocks-live-after-clear", std::to_string(sp->live.size()) + " blocks (" + std::to_string(sp->live_bytes) + " bytes) still held after doc.clear()");
      }
    }
  }

  // returns false when the case should stop
  bool step(const Op& o) {
    log.push_back(op_str(o));
    // C06 slot-reuse predicate: evaluated from the state before the step
    std::vector<Inspector::Snap> before;
    if (c06) for (auto& d : x.docs) before.push_back(Inspector::inspect(*d));
    Outcome exp = model_apply(m, o);
    Report rep; rep.violation = [&](const std::string& cl, const std::string& de) { viol(cl, de); };
    x.apply(o, exp, m, rep);
    for (size_t i = 0; i < m.refs.size(); i++) if (!m.refs[i].live) x.refs[i] = AJ::JsonVariant();
    // after a deserialization the model takes the library's float values (judged with C12's tolerance first)
    if ((o.k == OpK::DeserJson || o.k == OpK::DeserMsgPack) && exp.bound) {
      MVal* n = m.resolve_read(o.t);
      AJ::JsonVariantConst v; x.at(o.t, false, [&](auto&& p) { v = p.template as<AJ::JsonVariantConst>(); });
      if (n) {
        ExtractState es; ExtractOpt eo; eo.max_nodes = 100000;
        MVal y = extract(v, &es, eo);
        if (!exp.resync) {
          CmpOpt co; co.mode = Cmp::Tol; co.tol_rel = kUseDouble ? 1e-6 : 1e-5; std::string why;   // (don't-care 14: 32-bit JsonFloat parses within 1e-5)
          if (!mv_equal(*n, y, co, &why)) viol("deserialized-value-differs", why + " | library has " + describe(y, 200));
        }
        if (!es.overflow) m.put(*n, y);
        m.sweep();
      }
    }
    if (failed) return false;
    if (c06) c06_monitors(o, before);
    if (failed) return false;
    check_all(o);
    for (auto& a : x.allocs) if (!a->errors.empty()) { viol("allocator-protocol", a->errors[0]); break; }
    return !failed && !x.stop;
  }
};

// Random walk to an existing node: returns its path from the document root.
static bool random_existing_path(Rng& r, const MVal& root, int minlen, int maxlen, Path& out) {
  const MVal* n = &root; out.clear();
  int len = (int)r.range(minlen, maxlen);
  for (int i = 0; i < len; i++) {
    Step st;
    if (n->k == MVal::Arr && !n->a.empty()) { st.is_key = false; st.index = (size_t)r.below(n->a.size()); n = &n->a[st.index]; }
    else if (n->k == MVal::Obj && !n->o.empty()) { size_t j = (size_t)r.below(n->o.size()); st.key = n->o[j].first; if (n->find(st.key) != &n->o[j].second) return false; n = &n->o[j].second; }
    else break;
    out.push_back(st);
  }
  return (int)out.size() >= minlen;
}

// An assignment whose source and destination overlap inside one document.
static bool make_alias_op(Rng& r, Model& m, Op& o, std::string& relation) {
  int d = (int)r.below(m.docs.size());
  Path p, q;
  unsigned rel = (unsigned)r.below(3);
  o = Op(); o.k = OpK::Assign; o.t.doc = o.src.doc = d; o.strkind = (uint8_t)r.below(9);
  if (rel == 0) {
    if (!random_existing_path(r, m.docs[(size_t)d], 0, 3, p)) return false;
    o.t.path = p; o.src.path = p; relation = "self";
    return true;
  }
  if (!random_existing_path(r, m.docs[(size_t)d], 0, 2, p)) return false;
  const MVal* pn = Model::nav_read(&m.docs[(size_t)d], p);
  if (!pn) return false;
  Path rest;
  bool have = random_existing_path(r, *pn, 1, 3 - (int)p.size(), rest);
  q = p;
  if (have) q.insert(q.end(), rest.begin(), rest.end());
  if (rel == 1) {  // source is a strict ancestor of the destination
    if (!have || r.chance(1, 3)) {  // destination to be created inside the source
      if (pn->k != MVal::Obj && pn->k != MVal::Arr && pn->k != MVal::Null) return false;
      q = p; Step st;
      if (pn->k == MVal::Arr) { st.is_key = false; st.index = pn->a.size(); } else st.key = "new";
      if (pn->k == MVal::Null && p.empty()) return false;
      q.push_back(st);
    }
    o.src.path = p; o.t.path = q; relation = "src-ancestor-of-dst";
    return true;
  }
  if (!have) return false;
  o.src.path = q; o.t.path = p; relation = "src-descendant-of-dst";
  return true;
}

static void finish_case(Ctx& c, CaseRun& run) {
  // destruction returns everything
  run.x.docs.clear();
  for (size_t i = 0; i < run.x.allocs.size(); i++) {
    auto& a = *run.x.allocs[i];
    if (!a.live.empty()) run.viol("leak-after-destruction", "allocator " + std::to_string(i) + ": " + std::to_string(a.live.size()) + " blocks (" + std::to_string(a.live_bytes) + " bytes) still live after every document was destroyed");
    if (!a.errors.empty()) run.viol("allocator-protocol", a.errors[0]);
    c.count("allocator_events", a.calls());
  }
}

// Iterators held across mutations of OTHER elements: an iterator keeps designating its element (same value, same key) across
// later insertions and removals, and remove(iterator) removes exactly that element whatever happened around it.
// (What ++ does on an iterator obtained before a mutation is not promised and is not used.)
static void iters_case(Ctx& c, Rng& r) {
  bool object = r.coin();
  int n0 = (int)r.range(1, 12), steps = (int)r.range(3, 40);
  std::string log = std::string(object ? "object" : "array") + " of " + std::to_string(n0) + ": ";
  c.outcome(object ? "iters-object" : "iters-array");
  SpyAllocator sa;
  {
    AJ::JsonDocument doc(&sa);
    bool nested = r.coin();
    AJ::JsonVariant host = nested ? doc["h"][1].to<AJ::JsonVariant>() : doc.to<AJ::JsonVariant>();
    if (nested) doc["tail"] = "sibling";
    std::vector<std::pair<std::string, long>> model;     // (key, value); keys unused for arrays
    long next_val = 100; int next_key = 0;
    auto fresh_key = [&]() { return "k" + std::to_string(next_key++); };
    AJ::JsonArray arr; AJ::JsonObject obj;
    if (object) { obj = host.to<AJ::JsonObject>(); for (int i = 0; i < n0; i++) { std::string k = fresh_key(); obj[k] = next_val; model.emplace_back(k, next_val++); } }
    else { arr = host.to<AJ::JsonArray>(); for (int i = 0; i < n0; i++) { arr.add(next_val); model.emplace_back("", next_val++); } }
    struct Held { AJ::JsonArray::iterator ai; AJ::JsonObject::iterator oi; long val; std::string key; };
    std::vector<Held> held;
    auto viol = [&](const std::string& cl, const std::string& d) { c.violation(cl, d, log); };
    auto hold = [&](size_t pos) {
      Held h; h.val = model[pos].second; h.key = model[pos].first; size_t i = 0;
      if (object) { for (auto it = obj.begin(); it != obj.end(); ++it, ++i) if (i == pos) { h.oi = it; break; } }
      else { for (auto it = arr.begin(); it != arr.end(); ++it, ++i) if (i == pos) { h.ai = it; break; } }
      held.push_back(h);
      log += "hold@" + std::to_string(pos) + "(" + std::to_string(h.val) + ") ";
    };
    auto check = [&]() -> bool {
      size_t i = 0; bool ok = true;
      if (object) {
        if (obj.size() != model.size()) { viol("observable", "size() = " + std::to_string(obj.size()) + ", model " + std::to_string(model.size())); return false; }
        for (AJ::JsonPair kv : obj) { if (i >= model.size() || model[i].first != kv.key().c_str() || kv.value().as<long>() != model[i].second) { ok = false; break; } i++; }
      } else {
        if (arr.size() != model.size()) { viol("observable", "size() = " + std::to_string(arr.size()) + ", model " + std::to_string(model.size())); return false; }
        for (AJ::JsonVariant v : arr) { if (i >= model.size() || v.as<long>() != model[i].second) { ok = false; break; } i++; }
      }
      if (!ok || i != model.size()) { std::string s; AJ::serializeJson(host, s); std::string w; for (auto& e : model) w += (object ? e.first + ":" : "") + std::to_string(e.second) + ","; viol("document-differs-from-model", "collection is " + s + ", model " + w); return false; }
      for (auto& h : held) {
        long got = object ? h.oi->value().as<long>() : h.ai->as<long>();
        if (got != h.val) { viol("reference-designates-other-value", "held iterator of element " + std::to_string(h.val) + " now reads " + std::to_string(got)); return false; }
        if (object && h.key != h.oi->key().c_str()) { viol("reference-designates-other-value", "held iterator of member " + h.key + " now has key " + h.oi->key().c_str()); return false; }
        c.count("held_iterator_reads");
      }
      Inspector::Snap s = Inspector::inspect(doc);
      if (!s.ok) { viol("structure", s.error); return false; }
      if (s.leaked && !doc.overflowed()) { viol("structure", std::to_string(s.leaked) + " slots neither reachable nor free"); return false; }
      if (nested && (doc["tail"] != "sibling" || doc["h"][0].isNull() == false)) { viol("mutation-changed-other-value", "siblings of the host collection changed"); return false; }
      return true;
    };
    auto drop_held = [&](long val) { for (size_t i = 0; i < held.size(); i++) if (held[i].val == val) { held.erase(held.begin() + (long)i); i--; } };
    if (!check()) return;
    for (int st = 0; st < steps; st++) {
      unsigned w = (unsigned)r.below(100);
      if (doc.overflowed()) break;
      if (w < 25 && !model.empty() && held.size() < 4) hold((size_t)r.below(model.size()));
      else if (w < 50) {   // append
        if (object) { std::string k = fresh_key(); obj[k] = next_val; model.emplace_back(k, next_val); } else { arr.add(next_val); model.emplace_back("", next_val); }
        log += "add(" + std::to_string(next_val++) + ") ";
      } else if (w < 70 && !model.empty()) {   // remove by index / key (held iterators of that element die with it)
        size_t pos = (size_t)r.below(model.size());
        drop_held(model[pos].second);
        if (object) obj.remove(model[pos].first); else arr.remove(pos);
        log += "remove@" + std::to_string(pos) + " ";
        model.erase(model.begin() + (long)pos);
      } else if (w < 90 && !held.empty()) {   // remove through a held iterator
        size_t hi = (size_t)r.below(held.size());
        Held h = held[hi];
        drop_held(h.val);
        if (object) obj.remove(h.oi); else arr.remove(h.ai);
        log += "remove(held " + std::to_string(h.val) + ") ";
        for (size_t i = 0; i < model.size(); i++) if (model[i].second == h.val) { model.erase(model.begin() + (long)i); break; }
        c.count("removals_through_held_iterators");
      } else if (!model.empty()) {   // overwrite the value of an element in place (slot kept)
        size_t pos = (size_t)r.below(model.size());
        for (auto& h : held) if (h.val == model[pos].second) h.val = next_val;
        if (object) obj[model[pos].first] = next_val; else arr[pos] = next_val;
        log += "set@" + std::to_string(pos) + "(" + std::to_string(next_val) + ") ";
        model[pos].second = next_val++;
      }
      if (!check()) return;
    }
    uint64_t h = fnv1a(log, 0xcbf29ce484222325ull); c.nontrivial(h);
    if (c.want_sample()) c.sample(log.substr(0, 300));
  }
  if (!sa.live.empty()) c.violation("leak-after-destruction", "blocks live after destruction", log);
  if (!sa.errors.empty()) c.violation("allocator-protocol", sa.errors[0], log);
}

// Very deep trees (deeper than any deserializer lets through: they can only come from API calls): every depth-dependent
// observable against the model - nesting() at every level, size, traversal, both serializers and their measures,
// deep copies into another document and into a nested member, equality, removal of the innermost levels.
static void deep_case(Ctx& c, Rng& r) {
  static const int edges[] = {126, 127, 128, 129, 254, 255, 256, 257, 258, 300, 511, 512, 513, 600};
  int depth = r.chance(2, 3) ? r.pick(edges) : (int)r.range(2, 700);
  size_t per_level = 2;   // a container and (objects) its key live in up to two slots per level
  if ((uint64_t)depth * per_level + 8 >= kMaxSlots) depth = (int)(kMaxSlots / per_level) - 4;
  if (depth < 2) depth = 2;
  int shape = (int)r.below(3);
  MVal model = gen_chain(r, depth, shape);
  std::string wit = "chain of " + std::to_string(depth) + " nested " + (shape == 0 ? "arrays" : shape == 1 ? "objects" : "alternating arrays/objects") + " built through the API";
  if (c.want_sample()) c.sample(wit);
  c.nontrivial(mix3((uint64_t)depth, (uint64_t)shape, 77));
  c.outcome("deep-chain");
  auto viol = [&](const std::string& cl, const std::string& d) { c.violation(cl, d, wit); };
  SpyAllocator sa, sb;
  {
    AJ::JsonDocument doc(&sa);
    bool iterative = r.coin();
    if (iterative) {
      // leaf = leaf.add<JsonArray>() / leaf["a"].to<JsonObject>() repeated depth times
      AJ::JsonVariant cur = doc.to<AJ::JsonVariant>();
      const MVal* m = &model;
      while (m->is_container()) {
        if (m->k == MVal::Arr) { AJ::JsonArray a = cur.to<AJ::JsonArray>(); cur = a.add<AJ::JsonVariant>(); m = &m->a[0]; }
        else { AJ::JsonObject o = cur.to<AJ::JsonObject>(); cur = o[m->o[0].first].to<AJ::JsonVariant>(); m = &m->o[0].second; }
      }
      cur.set((long long)m->as_ld());
    } else build(doc.to<AJ::JsonVariant>(), model);
    if (doc.overflowed()) { viol("spurious-overflow", "overflowed() after building a chain that fits the configured limits"); return; }
    Inspector::Snap s0 = Inspector::inspect(doc);
    if (!s0.ok) { viol("structure", s0.error); return; }
    // nesting() at every level, through the document, variants, array / object handles
    if (doc.nesting() != (size_t)depth) viol("observable", "doc.nesting() = " + std::to_string(doc.nesting()) + ", model " + std::to_string(depth));
    {
      AJ::JsonVariantConst v = doc.as<AJ::JsonVariantConst>(); const MVal* m = &model; int level = 0;
      while (m->is_container()) {
        size_t want = m->nesting();
        size_t got = v.nesting();
        size_t got2 = m->k == MVal::Arr ? v.as<AJ::JsonArrayConst>().nesting() : v.as<AJ::JsonObjectConst>().nesting();
        if (got != want || got2 != want) { viol("observable", "nesting() at level " + std::to_string(level) + " = " + std::to_string(got) + " (handle: " + std::to_string(got2) + "), model " + std::to_string(want)); break; }
        if (v.size() != 1) { viol("observable", "size() at level " + std::to_string(level) + " = " + std::to_string(v.size())); break; }
        if (m->k == MVal::Arr) { v = v[0]; m = &m->a[0]; } else { v = v[m->o[0].first.c_str()]; m = &m->o[0].second; }
        level++;
        c.count("deep_levels_observed");
      }
      if (!m->is_container() && v.as<long long>() != (long long)m->as_ld()) viol("observable", "leaf value differs");
    }
    ExtractState es; ExtractOpt eo; eo.max_nodes = 100000;
    MVal y = extract(doc, &es, eo);
    CmpOpt co; std::string why;
    if (es.overflow || !mv_equal(model, y, co, &why)) viol("document-differs-from-model", why);
    std::string js, mp, pj;
    size_t n1 = AJ::serializeJson(doc, js), n2 = AJ::serializeMsgPack(doc, mp), n3 = AJ::serializeJsonPretty(doc, pj);
    if (n1 != js.size() || AJ::measureJson(doc) != n1) viol("observable", "measureJson / count / length disagree on a deep chain");
    if (n2 != mp.size() || AJ::measureMsgPack(doc) != n2) viol("observable", "measureMsgPack / count / length disagree on a deep chain");
    if (n3 != pj.size() || AJ::measureJsonPretty(doc) != n3) viol("observable", "measureJsonPretty / count / length disagree on a deep chain");
    { RenderOpt ro; ro.use_float_spelling = false; std::string want = render_json(model, ro); if (js != want) viol("observable", "serializeJson of the deep chain differs from the reference rendering (first difference at byte " + std::to_string(std::mismatch(js.begin(), js.end(), want.begin(), want.end()).first - js.begin()) + ")"); }
    {
      // the pretty text must denote the same value: strip insignificant whitespace (no strings with blanks in a chain)
      std::string squeezed; for (char ch : pj) if (ch != ' ' && ch != '\n' && ch != '\r' && ch != '\t') squeezed += ch;
      if (squeezed != js) viol("observable", "serializeJsonPretty of the deep chain is not the compact text plus whitespace");
    }
    Inspector::Snap s1 = Inspector::inspect(doc);
    if (s1.hash != s0.hash) viol("read-only-op-changed-state", "observation changed the concrete state");
    // deep copies: whole document, and into a member of another document
    {
      AJ::JsonDocument d2(&sb);
      d2.set(doc);
      if (d2.overflowed()) viol("spurious-overflow", "copy of the chain overflowed");
      else {
        if (d2.nesting() != (size_t)depth) viol("observable", "copy: nesting() = " + std::to_string(d2.nesting()) + ", model " + std::to_string(depth));
        if (!(d2 == doc) || d2 != doc) viol("observable", "copy of a deep chain does not compare equal to its source");
        MVal y2 = extract(d2);
        if (!mv_equal(model, y2, co, &why)) viol("copy-differs", why);
      }
      AJ::JsonDocument d3(&sb);
      d3["x"][1] = doc;
      if (!d3.overflowed()) {
        if (d3.nesting() != (size_t)depth + 2) viol("observable", "nested copy: nesting() = " + std::to_string(d3.nesting()) + ", model " + std::to_string(depth + 2));
        std::string j3; AJ::serializeJson(d3["x"][1], j3);
        if (j3 != js) viol("copy-differs", "chain copied into a nested member serializes differently");
      }
      AJ::JsonDocument d4(doc);   // copy constructor
      if (d4.nesting() != (size_t)depth) viol("observable", "copy-constructed document: nesting() = " + std::to_string(d4.nesting()));
      // the source is independent of its copies
      d2.clear(); d3.clear();
      std::string again; AJ::serializeJson(doc, again);
      if (again != js) viol("copy-not-independent", "source changed after its copies were cleared");
    }
    // cut the chain at a random level: everything below disappears, nesting follows
    {
      int cut = (int)r.range(0, depth - 1);
      AJ::JsonVariant v = doc.as<AJ::JsonVariant>(); MVal* m = &model;
      for (int i = 0; i < cut; i++) { if (m->k == MVal::Arr) { v = v[0]; m = &m->a[0]; } else { v = v[m->o[0].first.c_str()]; m = &m->o[0].second; } }
      if (m->k == MVal::Arr) { v.as<AJ::JsonArray>().remove(0); m->a.clear(); } else { v.as<AJ::JsonObject>().remove(m->o[0].first.c_str()); m->o.clear(); }
      if (doc.nesting() != model.nesting()) viol("observable", "after cutting at level " + std::to_string(cut) + ": nesting() = " + std::to_string(doc.nesting()) + ", model " + std::to_string(model.nesting()));
      MVal y3 = extract(doc);
      if (!mv_equal(model, y3, co, &why)) viol("document-differs-from-model", "after cutting at level " + std::to_string(cut) + ": " + why);
      Inspector::Snap s2 = Inspector::inspect(doc);
      if (!s2.ok) viol("structure", "after cut: " + s2.error);
      else if (s2.leaked) viol("structure", "after cut: " + std::to_string(s2.leaked) + " slots neither reachable nor free");
    }
  }
  if (!sa.live.empty() || !sb.live.empty()) viol("leak-after-destruction", "blocks live after the documents were destroyed");
  if (!sa.errors.empty()) viol("allocator-protocol", sa.errors[0]);
  if (!sb.errors.empty()) viol("allocator-protocol", sb.errors[0]);
}

void vf_run_case(Ctx& c, uint64_t index) {
  Rng r(c.seed, 4, index);
  if (c.mode == "deep") { deep_case(c, r); return; }
  if (c.mode == "iters") { iters_case(c, r); return; }
  if (c.mode.rfind("small", 0) == 0) {
    // decode index into a digit string of length 1..L
    uint64_t i = index, p = SMALL_A; int len = 1;
    while (i >= p) { i -= p; p *= SMALL_A; len++; }
    CaseRun run(c, 2, 2, r, false);
    std::string seq;
    for (int k = 0; k < len; k++) { int d = (int)(i % SMALL_A); i /= SMALL_A; seq += "0123456789abcdef"[d]; if (!run.step(small_op(d, run.m))) break; }
    finish_case(c, run);
    c.nontrivial(index);
    c.outcome("small-history");
    if (c.want_sample()) c.sample("systematic op sequence " + seq);
    return;
  }
  HistOpt ho;
  ho.ndocs = (int)r.range(1, 3);
  ho.nrefs = 6;
  ho.key_pool = (int)r.range(2, 8);
  bool alias_mode = c.mode == "alias";
  ho.max_nodes = (size_t)std::min<uint64_t>(120, kMaxSlots / 3);
  ho.binext = true;
  ho.int64 = ARDUINOJSON_USE_LONG_LONG != 0;
  ho.float32_only = !kUseDouble;
  int steps = (int)(r.chance(1, 20) ? r.range(300, 1500) : r.range(10, 200));
  if (alias_mode) steps = (int)r.range(3, 40);
  CaseRun run(c, ho.ndocs, ho.nrefs, r, c.mode.rfind("c06", 0) == 0);
  int done = 0;
  for (; done < steps; done++) {
    Op o = gen_op(r, ho, run.m);
    adapt_op(o);
    c.outcome(std::string("op:") + opk_name(o.k));
    if (!run.step(o)) break;
  }
  if (alias_mode && !run.failed && !run.x.stop) {
    // finding probe: one aliasing assignment as the last step (DESIGN.md section 3: known-finding shapes)
    Op o; std::string rel;
    bool ok = false;
    for (int attempt = 0; attempt < 10 && !ok; attempt++) ok = make_alias_op(r, run.m, o, rel);
    if (ok) {
      run.context = "alias-assign relation=" + rel + ": ";
      fprintf(stderr, "VF-CONTEXT: alias-assign relation=%s\n", rel.c_str()); fflush(stderr);
      c.outcome("alias:" + rel);
      run.step(o);
      fprintf(stderr, "VF-CONTEXT: none\n");
      run.context.clear();
    }
  }
  finish_case(c, run);
  c.count("history_steps", (uint64_t)done);
  if (run.x.stop) c.outcome("stopped:" + run.x.stop_reason);
  if (done >= 10) { uint64_t h = 0; for (auto& l : run.log) h = fnv1a(l, h ? h : 0xcbf29ce484222325ull); c.nontrivial(h); }
  if (c.want_sample()) { std::string s; for (size_t i = 0; i < run.log.size() && i < 8; i++) s += run.log[i] + "; "; c.sample(std::to_string(done) + " steps: " + s + "..."); }
}
