// C02 serializeJson emits exactly the document, on every kind of destination.
#include "../aj/dest.hpp"
#include "../aj/extract.hpp"
#include "../common/driver_main.hpp"
#include "../common/gen_value.hpp"
#include "../common/refjson.hpp"

using namespace vf;

uint64_t vf_total(const std::string&) { return 0; }

static bool is_rfc_number(const std::string& s) {
  MVal t; std::string e;
  if (s.empty() || !(s[0] == '-' || isdigit((unsigned char)s[0]))) return false;
  return parse_json_strict(s, t, &e) && t.is_number();
}

// Walk model and parsed output in parallel: check what the statement fixes
// (structure, order, strings, integer digits, float accuracy, raw verbatim) and
// copy each float literal into the model copy so that the whole text can then
// be compared byte for byte.
static bool match(MVal& m, const MVal& t, std::string& why, const std::string& path) {
  auto fail = [&](const std::string& w) { if (why.empty()) why = path + ": " + w; return false; };
  switch (m.k) {
    case MVal::Null: return t.k == MVal::Null ? true : fail("null printed as " + describe(t, 40));
    case MVal::Bool: return (t.k == MVal::Bool && t.b == m.b) ? true : fail("bool printed as " + describe(t, 40));
    case MVal::Int:
      if (!t.is_number() || t.s != int_to_string(m.neg, m.mag)) return fail("integer " + int_to_string(m.neg, m.mag) + " printed as " + (t.is_number() ? t.s : describe(t, 40)));
      return true;
    case MVal::Float: {
      double x = kUseDouble ? m.f : (double)(float)m.f;
      if (x != x || std::isinf(x)) { m.s.clear(); return t.k == MVal::Null ? true : fail("non-finite number printed as " + describe(t, 40) + " instead of null"); }
      if (!t.is_number() || t.s.empty()) return fail("float printed as " + describe(t, 40));
      long double v = strtold(t.s.c_str(), nullptr);
      bool as_float = !kUseDouble || (double)(float)x == x;   // don't-care 13
      long double tol = (as_float ? 1e-6L : 1e-9L) * std::max<long double>(1.0L, fabsl((long double)x));
      if (fabs(x) >= 1e-300 && fabs(x) <= 1e300 && fabsl(v - (long double)x) > tol * 1.0000001L) return fail("float " + describe(MVal::flt(x)) + " printed as " + t.s);
      m.s = t.s;
      return true;
    }
    case MVal::Str: return (t.k == MVal::Str && t.s == m.s) ? true : fail("string bytes differ after parsing the output");
    case MVal::Raw: {
      MVal rv; std::string e;
      if (!parse_json_strict(m.s, rv, &e)) return true;  // generator only uses parseable fragments
      CmpOpt co; co.mode = Cmp::Exact;
      MVal tt = t;
      // literals are kept on both sides; compare structure+values
      return mv_equal(rv, tt, co, &why, path) ? true : false;
    }
    case MVal::Arr:
      if (t.k != MVal::Arr || t.a.size() != m.a.size()) return fail("array printed with " + std::to_string(t.a.size()) + " elements, document has " + std::to_string(m.a.size()));
      for (size_t i = 0; i < m.a.size(); i++) if (!match(m.a[i], t.a[i], why, path + "[" + std::to_string(i) + "]")) return false;
      return true;
    case MVal::Obj:
      if (t.k != MVal::Obj || t.o.size() != m.o.size()) return fail("object printed with " + std::to_string(t.o.size()) + " members, document has " + std::to_string(m.o.size()));
      for (size_t i = 0; i < m.o.size(); i++) {
        if (t.o[i].first != m.o[i].first) return fail("member key/order differs");
        if (!match(m.o[i].second, t.o[i].second, why, path + "." + printable(m.o[i].first, 30))) return false;
      }
      return true;
    default: return true;
  }
}

void vf_run_case(Ctx& c, uint64_t index) {
  Rng r(c.seed, 2, index);
  GenOpt g;
  g.str_mode = (int)r.below(3);
  g.allow_raw_json = true;
  g.allow_nonfinite = true;
  g.float32_only = !kUseDouble;
  g.max_depth = (int)r.range(0, 6);
  g.max_width = (int)r.range(0, 7);
  if (r.chance(1, 40)) g.long_str = std::min<size_t>(kMaxStringLength, 600);
  MVal model;
  unsigned shape = (unsigned)r.below(40);
  if (shape == 0) model = gen_chain(r, (int)r.range(1, 300), (int)r.below(3));      // deep nesting (pretty printer nesting_ is 8 bits)
  else if (shape == 1) { model = MVal::str(""); for (int i = 0; i < 256; i++) model.s += (char)i; }  // all 256 byte values
  else if (shape == 2) { model = MVal::obj(); std::string k; for (int i = 0; i < 256; i++) k += (char)(255 - i); model.o.emplace_back(k, MVal::null()); }
  else model = gen_value(r, g);
  if (!within_capacity(model)) { c.outcome("over-capacity"); return; }
  std::string wit = describe(model, 500);
  if (c.want_sample()) c.sample(wit);
  if (model.is_container() || model.k == MVal::Float || model.k == MVal::Str || model.k == MVal::Raw) c.nontrivial(mv_hash(model));

  AJ::JsonDocument doc;
  bool via_parse = r.chance(1, 4) && shape > 2;
  if (via_parse) {
    // document obtained through deserialization: raw values and non-finite numbers cannot come from a text
    GenOpt g2 = g; g2.allow_raw_json = false; g2.allow_nonfinite = false; g2.str_mode = std::min(g.str_mode, 1);
    model = gen_value(r, g2);
    if (!within_capacity(model)) { c.outcome("over-capacity"); return; }
    RenderOpt ro; ro.use_float_spelling = false;
    std::string text = render_json(model, ro);
    auto err = AJ::deserializeJson(doc, text, AJ::DeserializationOption::NestingLimit(50));
    if (err) { c.outcome("parse-failed"); return; }
    model = extract(doc);   // what the document holds now is the reference for serialization
    wit = "(parsed) " + describe(model, 500);
    c.outcome("doc-from-deserialization");
  } else {
    BuildOpt bo; bo.rng = &r;
    if (!build(doc.to<AJ::JsonVariant>(), model, bo) || doc.overflowed()) { c.violation("build-failed", "building the document failed without allocation failure", wit); return; }
    c.outcome("doc-from-api");
  }

  for (int pretty = 0; pretty < 2; pretty++) {
    const char* what = pretty ? "serializeJsonPretty" : "serializeJson";
    std::string full;
    size_t n0 = pretty ? AJ::serializeJsonPretty(doc, full) : AJ::serializeJson(doc, full);
    size_t meas = pretty ? AJ::measureJsonPretty(doc) : AJ::measureJson(doc);
    if (n0 != full.size()) c.violation("count-differs", std::string(what) + " to std::string returned " + std::to_string(n0) + " but produced " + std::to_string(full.size()) + " bytes", wit);
    if (meas != full.size()) c.violation("measure-differs", std::string(pretty ? "measureJsonPretty" : "measureJson") + " = " + std::to_string(meas) + ", output has " + std::to_string(full.size()) + " bytes", wit);
    static std::string compact;
    if (!pretty) {
      compact = full;
      MVal t; std::string perr;
      JsonParseOpt po; po.max_depth = 100000;
      if (!parse_json_strict(full, t, &perr, po)) { c.violation("output-not-json", "independent parser rejects the output: " + perr, wit + "  text=" + printable(full, 400)); return; }
      MVal m2 = stored_form(model); std::string why;
      if (!match(m2, t, why, "$")) { c.violation("output-denotes-other-value", why, wit + "  text=" + printable(full, 400)); return; }
      RenderOpt ro; ro.use_float_spelling = true;
      std::string expected = render_json(m2, ro);
      if (expected != full) {
        size_t i = 0; while (i < expected.size() && i < full.size() && expected[i] == full[i]) i++;
        c.violation("output-bytes-differ", "output differs from the expected text at byte " + std::to_string(i) + ": expected ..." + printable(expected.substr(i > 10 ? i - 10 : 0, 40)) + " got ..." + printable(full.substr(i > 10 ? i - 10 : 0, 40)), wit);
        return;
      }
    } else {
      if (strip_json_ws(full) != compact) { c.violation("pretty-differs-from-compact", "pretty output with insignificant whitespace removed is not the compact output", wit + "  pretty=" + printable(full, 300)); return; }
    }
    // destinations
    auto ser = [&](void* b, size_t cap) { return pretty ? AJ::serializeJsonPretty(doc, b, cap) : AJ::serializeJson(doc, b, cap); };
    std::string why;
    for (size_t cap : capacities_for(full.size(), r)) {
      c.count("buffer_capacities_checked");
      if (!check_buffer(ser, full, cap, true, why)) { c.violation("buffer-rule", std::string(what) + ": " + why, wit); break; }
    }
    { std::ostringstream os; size_t n = pretty ? AJ::serializeJsonPretty(doc, os) : AJ::serializeJson(doc, os);
      if (os.str() != full || n != full.size()) c.violation("ostream-differs", std::string(what) + " to std::ostream: content or count differs", wit); }
    { // a stream that carries formatting state left over from earlier output (width, fill, alignment, base, showpos...)
      std::ostringstream os; os << "x";
      static const int widths[] = {1, 2, 8, 20};
      os.width(r.pick(widths)); os.fill(r.coin() ? '*' : '0');
      os.setf(r.coin() ? std::ios::left : std::ios::right, std::ios::adjustfield);
      if (r.coin()) os.setf(std::ios::hex, std::ios::basefield);
      if (r.coin()) os.setf(std::ios::showpos | std::ios::uppercase | std::ios::showbase | std::ios::scientific);
      os.precision((int)r.range(0, 12));
      size_t n;
      if (r.coin()) n = pretty ? AJ::serializeJsonPretty(doc, os) : AJ::serializeJson(doc, os);
      else if (pretty) n = AJ::serializeJsonPretty(doc.as<AJ::JsonVariantConst>(), os);
      else { os << doc; n = full.size(); }
      if (os.str() != "x" + full || n != full.size()) c.violation("ostream-differs", std::string(what) + " to a std::ostream with width/fill/flags set: content or count differs", wit);
      c.count("formatted_stream_destinations"); }
    { CollectWriter w; size_t n = pretty ? AJ::serializeJsonPretty(doc, w) : AJ::serializeJson(doc, w);
      if (w.data != full || n != full.size()) c.violation("custom-writer-differs", std::string(what) + " to a custom writer: content or count differs", wit); }
    { size_t lim = (size_t)r.below(full.size() + 2); ShortWriter w(lim); size_t n = pretty ? AJ::serializeJsonPretty(doc, w) : AJ::serializeJson(doc, w);
      if (n != w.data.size() || w.data != full.substr(0, std::min(lim, full.size()))) c.violation("short-writer-count", std::string(what) + " to a writer that stops accepting after " + std::to_string(lim) + " bytes: returned " + std::to_string(n) + ", accepted " + std::to_string(w.data.size()), wit); }
    { std::string s = "previous content"; size_t n = pretty ? AJ::serializeJsonPretty(doc, s) : AJ::serializeJson(doc, s);
      if (s != full || n != full.size()) c.violation("std-string-differs", std::string(what) + " to a non-empty std::string", wit); }
#ifdef VF_ARDUINO_SHIM
    { CollectPrint p; size_t n = pretty ? AJ::serializeJsonPretty(doc, p) : AJ::serializeJson(doc, p);
      if (p.data != full || n != full.size()) c.violation("print-differs", std::string(what) + " to Print: content or count differs", wit); }
    if (full.find('\0') == std::string::npos) {
      ::String as("old"); size_t n = pretty ? AJ::serializeJsonPretty(doc, as) : AJ::serializeJson(doc, as);
      if (as.std() != full || n != full.size()) c.violation("arduino-string-differs", std::string(what) + " to Arduino String: content or count differs (" + std::to_string(n) + " vs " + std::to_string(full.size()) + ")", wit);
    }
    c.count("arduino_destinations_checked");
#endif
    { char arr[48]; memset(arr, 0x7e, sizeof arr); size_t n = pretty ? AJ::serializeJsonPretty(doc, arr) : AJ::serializeJson(doc, arr);
      if (n != std::min(full.size(), sizeof arr) || memcmp(arr, full.data(), n) != 0) c.violation("char-array-differs", std::string(what) + " to char[48]", wit); }
  }
}
