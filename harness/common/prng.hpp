// Deterministic PRNG used by every generator.  No ArduinoJson include: the
// same (seed, stream, index) gives the same case under every library
// configuration and every compiler flavour.
#pragma once
#include <stdint.h>
#include <stddef.h>
#include <string>
#include <vector>

namespace vf {

inline uint64_t splitmix64(uint64_t& x) {
  uint64_t z = (x += 0x9E3779B97F4A7C15ull);
  z = (z ^ (z >> 30)) * 0xBF58476D1CE4E5B9ull;
  z = (z ^ (z >> 27)) * 0x94D049BB133111EBull;
  return z ^ (z >> 31);
}

inline uint64_t mix3(uint64_t a, uint64_t b, uint64_t c) {
  uint64_t x = a * 0x9E3779B97F4A7C15ull + 0x1234567ull;
  splitmix64(x);
  x ^= b * 0xC2B2AE3D27D4EB4Full;
  splitmix64(x);
  x ^= c * 0x165667B19E3779F9ull;
  return splitmix64(x);
}

class Rng {
  uint64_t s_[4];
  static uint64_t rotl(uint64_t x, int k) { return (x << k) | (x >> (64 - k)); }

 public:
  explicit Rng(uint64_t seed = 1, uint64_t stream = 0, uint64_t index = 0) {
    uint64_t x = mix3(seed, stream, index);
    for (auto& s : s_) s = splitmix64(x);
  }
  uint64_t next() {  // xoshiro256**
    uint64_t r = rotl(s_[1] * 5, 7) * 9, t = s_[1] << 17;
    s_[2] ^= s_[0]; s_[3] ^= s_[1]; s_[1] ^= s_[2]; s_[0] ^= s_[3];
    s_[2] ^= t; s_[3] = rotl(s_[3], 45);
    return r;
  }
  // uniform in [0, n)
  uint64_t below(uint64_t n) { return n ? next() % n : 0; }
  // uniform in [lo, hi]
  int64_t range(int64_t lo, int64_t hi) {
    return lo + (int64_t)below((uint64_t)(hi - lo) + 1);
  }
  bool chance(unsigned num, unsigned den) { return below(den) < num; }
  bool coin() { return next() & 1; }
  double unit() { return (next() >> 11) * (1.0 / 9007199254740992.0); }
  template <class T> const T& pick(const std::vector<T>& v) { return v[below(v.size())]; }
  template <class T, size_t N> const T& pick(const T (&v)[N]) { return v[below(N)]; }
};

// FNV-1a 64 for hashing cases / states
inline uint64_t fnv1a(const void* p, size_t n, uint64_t h = 0xcbf29ce484222325ull) {
  auto b = (const unsigned char*)p;
  for (size_t i = 0; i < n; i++) { h ^= b[i]; h *= 0x100000001b3ull; }
  return h;
}
inline uint64_t fnv1a(const std::string& s, uint64_t h = 0xcbf29ce484222325ull) {
  return fnv1a(s.data(), s.size(), h);
}

inline std::string hexs(const std::string& s) {
  static const char* d = "0123456789abcdef";
  std::string r;
  for (unsigned char c : s) { r += d[c >> 4]; r += d[c & 15]; }
  return r;
}
// printable rendering for reports: ASCII kept, the rest \xNN
inline std::string printable(const std::string& s, size_t maxlen = 400) {
  static const char* d = "0123456789abcdef";
  std::string r;
  for (unsigned char c : s) {
    if (r.size() >= maxlen) { r += "...(" + std::to_string(s.size()) + " bytes)"; break; }
    if (c >= 0x20 && c < 0x7f && c != '\\') r += (char)c;
    else { r += "\\x"; r += d[c >> 4]; r += d[c & 15]; }
  }
  return r;
}

}  // namespace vf
