// Decimal literal generator and reference evaluation (glibc strtold, __int128).
#pragma once
#include <math.h>
#include <cmath>
#include <stdlib.h>
#include <string>
#include "prng.hpp"

namespace vf {

struct LitInfo {
  bool is_integer = false;      // no fraction, no exponent
  bool int_in_range = false;    // integer literal with value in [-2^63, 2^64)
  bool neg = false;
  unsigned __int128 mag = 0;    // valid when int_in_range
  long double v = 0;            // strtold of the literal (may be inf / 0 on over/underflow)
  int sig_digits = 0;
};

inline LitInfo analyse_literal(const std::string& lit) {
  LitInfo i;
  size_t p = 0;
  if (p < lit.size() && (lit[p] == '-' || lit[p] == '+')) { i.neg = lit[p] == '-'; p++; }
  bool integer = true, started = false; int sig = 0;
  unsigned __int128 m = 0; bool big = false;
  for (size_t k = p; k < lit.size(); k++) {
    char c = lit[k];
    if (c >= '0' && c <= '9') {
      if (c != '0') started = true;
      if (started) sig++;
      if (integer) { if (!big) { m = m * 10 + (unsigned)(c - '0'); if (m > ((unsigned __int128)1 << 65)) big = true; } }
    } else if (c == '.') integer = false;
    else if (c == 'e' || c == 'E') { integer = false; break; }
  }
  i.sig_digits = sig;
  i.is_integer = integer;
  if (integer && !big) {
    if (i.neg ? m <= ((unsigned __int128)1 << 63) : m < ((unsigned __int128)1 << 64)) { i.int_in_range = true; i.mag = m; }
  }
  i.v = strtold(lit.c_str(), nullptr);
  return i;
}

// Random decimal literal over the whole number grammar.  maxlen bounds the
// length (63 for literals inside documents).  The value is steered so that a
// good share lands inside [1e-300,1e300] even with extreme exponents.
inline std::string gen_literal(Rng& r, size_t maxlen, bool rfc_only = false) {
  for (int attempt = 0; attempt < 20; attempt++) {
    std::string s;
    unsigned w = (unsigned)r.below(10);
    if (w < 4) s += '-'; else if (w == 4 && !rfc_only) s += '+';
    size_t budget = maxlen > 8 ? maxlen - 8 : maxlen;
    size_t lead = 0;
    if (!rfc_only && r.chance(1, 4)) lead = (size_t)r.below(std::min<size_t>(41, budget / 2 + 1));
    s.append(lead, '0');
    size_t big = maxlen > 100 ? (r.chance(1, 6) ? (size_t)r.below(std::min<size_t>(5000, maxlen / 2)) : (size_t)r.below(40)) : (size_t)r.below(24);
    size_t ni = r.chance(1, 8) ? 0 : 1 + big % (budget / 2 + 1);
    if (rfc_only && ni == 0) ni = 1;
    size_t nf = r.chance(2, 5) ? 0 : 1 + (maxlen > 100 && r.chance(1, 6) ? (size_t)r.below(std::min<size_t>(5000, maxlen / 2)) : (size_t)r.below(24)) % (budget / 2 + 1);
    if (ni == 0 && nf == 0) ni = 1;
    std::string ip, fp;
    unsigned style = (unsigned)r.below(6);
    for (size_t i = 0; i < ni; i++) {
      char d = (char)('0' + r.below(10));
      if (style == 0) d = '9'; else if (style == 1) d = i == 0 ? '1' : '0';
      if (i == 0 && rfc_only && ni > 1 && d == '0') d = '1';
      ip += d;
    }
    for (size_t i = 0; i < nf; i++) { char d = (char)('0' + r.below(10)); if (style == 0) d = '9'; else if (style == 1) d = '0'; fp += d; }
    if (style == 1 && nf && r.coin()) fp[nf - 1] = '1';
    s += ip;
    if (nf || (!rfc_only && r.chance(1, 12))) { s += '.'; s += fp; }
    bool has_exp = r.chance(1, 2);
    if (has_exp) {
      long e;
      unsigned ew = (unsigned)r.below(10);
      // magnitude of the mantissa is about 10^ni (or 10^-k for leading fraction zeros); compensate often
      if (ew < 3) e = r.range(-30, 30);
      else if (ew < 6) e = -(long)ni + r.range(-320, 320);
      else if (ew < 8) e = r.range(-400, 400);
      else if (ew == 8) { static const long ex[] = {38, 39, -38, -39, -45, 308, 309, -308, -309, -323, -324, 37, 300, -300, 301, -301}; e = r.pick(ex) - (r.coin() ? (long)ni - 1 : 0); }
      else if (maxlen <= 40 || r.coin()) e = r.range(-5000, 5000);   // (short literals of the history generator: stream unchanged)
      else {
        // exponents around the widths an exponent accumulator may have (2^15, 2^16, 2^31, 2^32, 2^63): far outside every
        // floating-point range, so the value is +-infinity / +-0 unless the accumulator wraps
        static const long wide[] = {32767, 32768, 32769, 65535, 65536, 65537, 65540, 65836, 131072, 99999, 2147483647L, 2147483648L, 2147483649L, 4294967295L, 4294967296L, 4294967297L, 4294967596L, 9223372036854775807L};
        e = r.pick(wide);
        if (e < 9000000000000000000L && r.chance(1, 3)) e += r.range(0, 400);
        if (r.coin()) e = -e;
      }
      s += r.coin() ? 'e' : 'E';
      if (e < 0) s += '-'; else if (r.chance(1, 3)) s += '+';
      std::string es = std::to_string(e < 0 ? -e : e);
      if (r.chance(1, 8)) es = std::string((size_t)r.range(1, 3), '0') + es;
      s += es;
    }
    if (s.size() <= maxlen) return s;
  }
  return "1.5";
}

// Boundary integer literals: around powers of two and type limits, with leading zeros.
inline std::string gen_int_literal(Rng& r, bool allow_leading_zeros) {
  static const int ks[] = {7, 8, 15, 16, 31, 32, 53, 63, 64};
  unsigned __int128 v;
  bool neg = r.chance(2, 5);
  switch (r.below(4)) {
    case 0: v = (unsigned __int128)r.below(1000); break;
    case 1: v = ((unsigned __int128)1 << r.pick(ks)) + (unsigned __int128)(int64_t)r.range(0, 6) - 3; break;
    case 2: v = (unsigned __int128)r.next() >> r.below(64); break;
    default: {  // decimal boundaries
      v = 1; int n = (int)r.below(21); for (int i = 0; i < n; i++) v *= 10; v += (unsigned __int128)(int64_t)r.range(0, 4) - 2; break;
    }
  }
  std::string digits;
  unsigned __int128 t = v;
  do { digits.insert(digits.begin(), (char)('0' + (int)(t % 10))); t /= 10; } while (t);
  std::string s = neg ? "-" : "";
  if (allow_leading_zeros && r.chance(1, 3)) s.append((size_t)r.range(1, 40), '0');
  return s + digits;
}

// C12 accuracy oracle for a parsed literal.  got = what the library returned
// (as long double).  [lo, hi] is the magnitude range in which accuracy is
// promised (1e-300..1e300 in the statement).  Returns "" when fine.
inline std::string judge_parsed(const LitInfo& li, long double got, double rel_small, double rel_large,
                                long double lo = 1e-300L, long double hi = 1e300L) {
  long double v = li.v, a = fabsl(v);
  double rel = li.sig_digits > 7 ? rel_large : rel_small;
  if (got != got) return "parsed to NaN";
  if (a >= lo && a <= hi) {
    if (std::isinf(got)) return "in-range literal parsed to infinity";
    if (!(fabsl(got - v) <= (long double)rel * a)) return "in-range literal parsed outside the tolerance";
    return "";
  }
  if (a > hi) {  // +/-infinity, or the right finite value; never a finite value of the wrong magnitude
    if (std::isinf(got)) return ((got > 0) == !li.neg) ? "" : "infinity of the wrong sign";
    if (std::isinf(v) || !(fabsl(got - v) <= 1e-6L * a)) return "literal above the range parsed to a finite value of the wrong magnitude";
    return "";
  }
  // below the range (including zero): +/-0, or a value of the right order of magnitude
  // (subnormals have no relative accuracy to speak of: within a factor of two, same sign)
  if (got == 0) return "";
  if (a == 0) return "zero literal parsed to non-zero";
  if ((got > 0) != (v > 0) || fabsl(got) > 2 * a || fabsl(got) < a / 2) return "literal below the range parsed to a non-zero value of the wrong magnitude";
  return "";
}

}  // namespace vf
