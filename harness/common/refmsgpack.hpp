// Reference MessagePack encoder (with explicit/random width choices) and strict
// decoder, written from the MessagePack specification.  Independent of ArduinoJson.
#pragma once
#include "mval.hpp"

namespace vf {

inline void be_put(std::string& o, uint64_t v, int bytes) {
  for (int i = bytes - 1; i >= 0; i--) o += (char)((v >> (8 * i)) & 0xFF);
}

struct MpEncOpt {
  bool minimal = true;        // false: random legal (possibly non-minimal) widths
  bool float_as_f64 = false;  // when !minimal, may still choose f32 if exact
  bool f32_only = false;      // never emit f64 (USE_DOUBLE=0 workloads keep exactness)
};

inline void mp_len_header(std::string& o, size_t n, uint8_t fixbase, long fixmax, int c8, int c16, int c32, bool minimal, Rng* r) {
  // candidates in increasing width: fix (if n<=fixmax), 8 (if c8>=0 && n<256), 16 (n<65536), 32
  int cands[4]; int nc = 0;
  if (fixmax >= 0 && n <= (size_t)fixmax) cands[nc++] = 0;
  if (c8 >= 0 && n < 256) cands[nc++] = 1;
  if (n < 65536) cands[nc++] = 2;
  cands[nc++] = 3;
  int c = cands[0];
  if (!minimal && r) c = cands[r->below((uint64_t)nc)];
  switch (c) {
    case 0: o += (char)(fixbase | n); break;
    case 1: o += (char)c8; be_put(o, n, 1); break;
    case 2: o += (char)c16; be_put(o, n, 2); break;
    default: o += (char)c32; be_put(o, n, 4); break;
  }
}

inline void mp_encode_into(const MVal& v, std::string& o, const MpEncOpt& opt, Rng* r) {
  switch (v.k) {
    case MVal::Null: o += (char)0xc0; break;
    case MVal::Bool: o += (char)(v.b ? 0xc3 : 0xc2); break;
    case MVal::Int: {
      // legal encodings that hold the value
      int cands[10]; int nc = 0;  // 0 posfix,1 negfix,2 u8,3 u16,4 u32,5 u64,6 i8,7 i16,8 i32,9 i64
      if (!v.neg) {
        if (v.mag <= 0x7f) cands[nc++] = 0;
        if (v.mag <= 0xff) cands[nc++] = 2;
        if (v.mag <= 0xffff) cands[nc++] = 3;
        if (v.mag <= 0xffffffffull) cands[nc++] = 4;
        cands[nc++] = 5;
        if (v.mag <= 0x7f) cands[nc++] = 6;
        if (v.mag <= 0x7fff) cands[nc++] = 7;
        if (v.mag <= 0x7fffffffull) cands[nc++] = 8;
        if (v.mag <= 0x7fffffffffffffffull) cands[nc++] = 9;
      } else {
        if (v.mag <= 32) cands[nc++] = 1;
        if (v.mag <= 0x80) cands[nc++] = 6;
        if (v.mag <= 0x8000) cands[nc++] = 7;
        if (v.mag <= 0x80000000ull) cands[nc++] = 8;
        cands[nc++] = 9;
      }
      int c = cands[0];
      if (!opt.minimal && r) c = cands[r->below((uint64_t)nc)];
      uint64_t two = v.neg ? (~v.mag + 1) : v.mag;
      switch (c) {
        case 0: o += (char)v.mag; break;
        case 1: o += (char)(two & 0xff); break;
        case 2: o += (char)0xcc; be_put(o, two, 1); break;
        case 3: o += (char)0xcd; be_put(o, two, 2); break;
        case 4: o += (char)0xce; be_put(o, two, 4); break;
        case 5: o += (char)0xcf; be_put(o, two, 8); break;
        case 6: o += (char)0xd0; be_put(o, two, 1); break;
        case 7: o += (char)0xd1; be_put(o, two, 2); break;
        case 8: o += (char)0xd2; be_put(o, two, 4); break;
        default: o += (char)0xd3; be_put(o, two, 8); break;
      }
      break;
    }
    case MVal::Float: {
      float f = (float)v.f;
      bool exact32 = ((double)f == v.f) || (v.f != v.f);
      bool use32 = exact32 && (opt.minimal || !r || r->coin() || opt.f32_only);
      if (opt.f32_only) use32 = true;
      if (use32) { uint32_t b; memcpy(&b, &f, 4); o += (char)0xca; be_put(o, b, 4); }
      else { uint64_t b; memcpy(&b, &v.f, 8); o += (char)0xcb; be_put(o, b, 8); }
      break;
    }
    case MVal::Str: mp_len_header(o, v.s.size(), 0xa0, 31, 0xd9, 0xda, 0xdb, opt.minimal, r); o += v.s; break;
    case MVal::Raw: o += v.s; break;
    case MVal::Bin: mp_len_header(o, v.s.size(), 0, -1, 0xc4, 0xc5, 0xc6, opt.minimal, r); o += v.s; break;
    case MVal::Ext: {
      size_t n = v.s.size();
      bool fix = (n == 1 || n == 2 || n == 4 || n == 8 || n == 16);
      if (fix && (opt.minimal || !r || r->coin())) {
        o += (char)(n == 1 ? 0xd4 : n == 2 ? 0xd5 : n == 4 ? 0xd6 : n == 8 ? 0xd7 : 0xd8);
      } else {
        int cands[3]; int nc = 0;
        if (n < 256) cands[nc++] = 1;
        if (n < 65536) cands[nc++] = 2;
        cands[nc++] = 3;
        int c = cands[0]; if (!opt.minimal && r) c = cands[r->below((uint64_t)nc)];
        if (c == 1) { o += (char)0xc7; be_put(o, n, 1); } else if (c == 2) { o += (char)0xc8; be_put(o, n, 2); } else { o += (char)0xc9; be_put(o, n, 4); }
      }
      o += (char)v.ext; o += v.s;
      break;
    }
    case MVal::Arr:
      mp_len_header(o, v.a.size(), 0x90, 15, -1, 0xdc, 0xdd, opt.minimal, r);
      for (auto& e : v.a) mp_encode_into(e, o, opt, r);
      break;
    case MVal::Obj:
      mp_len_header(o, v.o.size(), 0x80, 15, -1, 0xde, 0xdf, opt.minimal, r);
      for (auto& e : v.o) {
        mp_len_header(o, e.first.size(), 0xa0, 31, 0xd9, 0xda, 0xdb, opt.minimal, r); o += e.first;
        mp_encode_into(e.second, o, opt, r);
      }
      break;
  }
}

inline std::string mp_encode(const MVal& v, const MpEncOpt& opt = MpEncOpt(), Rng* r = nullptr) {
  std::string o; mp_encode_into(v, o, opt, r); return o;
}

// ------------------------------------------------------------------ decoder

enum class MpErr { Ok, Incomplete, Reserved, BadKey, TooDeep };

struct MpDecodeResult {
  MpErr err = MpErr::Ok;
  size_t pos = 0;       // bytes consumed on Ok; offset of the offending byte / end on error
  size_t max_depth = 0; // deepest container opened
};

struct MpDecOpt {
  bool keep_binext_header = false;  // Bin/Ext: also record the exact header+payload bytes in a Raw (for byte-for-byte re-serialization checks) – not used
  size_t max_depth = 1000000;       // opening a container at depth > max_depth => TooDeep
  size_t max_items = 50000000;
};

class MpDecoder {
  const std::string& b_; size_t p_ = 0; MpDecOpt o_; MpDecodeResult res_;

 public:
  MpDecoder(const std::string& b, MpDecOpt o = MpDecOpt()) : b_(b), o_(o) {}
  MpDecodeResult decode(MVal& out) { value(out, 0); if (res_.err == MpErr::Ok) res_.pos = p_; return res_; }
  size_t pos() const { return p_; }

 private:
  bool fail(MpErr e, size_t at) { if (res_.err == MpErr::Ok) { res_.err = e; res_.pos = at; } return false; }
  bool need(size_t n) { if (b_.size() - p_ < n) return fail(MpErr::Incomplete, b_.size()); return true; }
  uint64_t be(int n) { uint64_t v = 0; for (int i = 0; i < n; i++) v = (v << 8) | (unsigned char)b_[p_++]; return v; }
  bool bytes(std::string& s, size_t n) { if (!need(n)) return false; s.assign(b_, p_, n); p_ += n; return true; }

  bool key(std::string& k) {
    if (!need(1)) return false;
    unsigned char c = (unsigned char)b_[p_];
    size_t n;
    if ((c & 0xe0) == 0xa0) { p_++; n = c & 0x1f; }
    else if (c == 0xd9) { p_++; if (!need(1)) return false; n = be(1); }
    else if (c == 0xda) { p_++; if (!need(2)) return false; n = be(2); }
    else if (c == 0xdb) { p_++; if (!need(4)) return false; n = be(4); }
    else if (c == 0xc1) return fail(MpErr::Reserved, p_);
    else return fail(MpErr::BadKey, p_);
    return bytes(k, n);
  }

  bool value(MVal& out, size_t depth) {
    if (!need(1)) return false;
    size_t at = p_;
    unsigned char c = (unsigned char)b_[p_++];
    if (c <= 0x7f) { out = MVal::uint(c); return true; }
    if (c >= 0xe0) { out = MVal::sint((int8_t)c); return true; }
    if ((c & 0xe0) == 0xa0) { out = MVal::str(""); return bytes(out.s, c & 0x1f); }
    if ((c & 0xf0) == 0x90) return array(out, c & 0x0f, depth, at);
    if ((c & 0xf0) == 0x80) return map(out, c & 0x0f, depth, at);
    switch (c) {
      case 0xc0: out = MVal::null(); return true;
      case 0xc1: return fail(MpErr::Reserved, at);
      case 0xc2: out = MVal::boolean(false); return true;
      case 0xc3: out = MVal::boolean(true); return true;
      case 0xc4: case 0xc5: case 0xc6: {
        int w = 1 << (c - 0xc4); if (!need((size_t)w)) return false; size_t n = be(w);
        out = MVal::bin(""); return bytes(out.s, n);
      }
      case 0xc7: case 0xc8: case 0xc9: {
        int w = 1 << (c - 0xc7); if (!need((size_t)w)) return false; size_t n = be(w);
        if (!need(1)) return false; int8_t t = (int8_t)b_[p_++];
        out = MVal::extv(t, ""); return bytes(out.s, n);
      }
      case 0xca: { if (!need(4)) return false; uint32_t b = (uint32_t)be(4); float f; memcpy(&f, &b, 4); out = MVal::flt(f); return true; }
      case 0xcb: { if (!need(8)) return false; uint64_t b = be(8); double d; memcpy(&d, &b, 8); out = MVal::flt(d); return true; }
      case 0xcc: if (!need(1)) return false; out = MVal::uint(be(1)); return true;
      case 0xcd: if (!need(2)) return false; out = MVal::uint(be(2)); return true;
      case 0xce: if (!need(4)) return false; out = MVal::uint(be(4)); return true;
      case 0xcf: if (!need(8)) return false; out = MVal::uint(be(8)); return true;
      case 0xd0: if (!need(1)) return false; out = MVal::sint((int8_t)be(1)); return true;
      case 0xd1: if (!need(2)) return false; out = MVal::sint((int16_t)be(2)); return true;
      case 0xd2: if (!need(4)) return false; out = MVal::sint((int32_t)be(4)); return true;
      case 0xd3: if (!need(8)) return false; out = MVal::sint((int64_t)be(8)); return true;
      case 0xd4: case 0xd5: case 0xd6: case 0xd7: case 0xd8: {
        size_t n = (size_t)1 << (c - 0xd4);
        if (!need(1)) return false; int8_t t = (int8_t)b_[p_++];
        out = MVal::extv(t, ""); return bytes(out.s, n);
      }
      case 0xd9: { if (!need(1)) return false; size_t n = be(1); out = MVal::str(""); return bytes(out.s, n); }
      case 0xda: { if (!need(2)) return false; size_t n = be(2); out = MVal::str(""); return bytes(out.s, n); }
      case 0xdb: { if (!need(4)) return false; size_t n = be(4); out = MVal::str(""); return bytes(out.s, n); }
      case 0xdc: { if (!need(2)) return false; size_t n = be(2); return array(out, n, depth, at); }
      case 0xdd: { if (!need(4)) return false; size_t n = be(4); return array(out, n, depth, at); }
      case 0xde: { if (!need(2)) return false; size_t n = be(2); return map(out, n, depth, at); }
      case 0xdf: { if (!need(4)) return false; size_t n = be(4); return map(out, n, depth, at); }
    }
    return fail(MpErr::Reserved, at);
  }

  bool array(MVal& out, size_t n, size_t depth, size_t at) {
    if (depth + 1 > o_.max_depth) return fail(MpErr::TooDeep, at);
    res_.max_depth = std::max(res_.max_depth, depth + 1);
    out = MVal::arr();
    for (size_t i = 0; i < n; i++) {
      out.a.emplace_back();
      if (!value(out.a.back(), depth + 1)) return false;
      if (out.a.size() > o_.max_items) return fail(MpErr::Incomplete, p_);
    }
    return true;
  }
  bool map(MVal& out, size_t n, size_t depth, size_t at) {
    if (depth + 1 > o_.max_depth) return fail(MpErr::TooDeep, at);
    res_.max_depth = std::max(res_.max_depth, depth + 1);
    out = MVal::obj();
    for (size_t i = 0; i < n; i++) {
      std::string k; if (!key(k)) return false;
      out.o.emplace_back(std::move(k), MVal());
      if (!value(out.o.back().second, depth + 1)) return false;
    }
    return true;
  }
};

inline MpDecodeResult mp_decode(const std::string& bytes, MVal& out, MpDecOpt o = MpDecOpt()) {
  MpDecoder d(bytes, o);
  return d.decode(out);
}

}  // namespace vf
