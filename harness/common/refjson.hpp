// Reference JSON side: renderer (canonical and randomly spelled) and a strict
// RFC 8259 parser, written from the RFC, independent of ArduinoJson.
#pragma once
#include <stdlib.h>
#include "gen_value.hpp"
#include "mval.hpp"

namespace vf {

// ---------------------------------------------------------------- rendering

inline void json_escape_canonical(const std::string& s, std::string& out) {
  // The escaping C17 attributes to serializeJson: only " \ \b \f \n \r \t and NUL.
  out += '"';
  for (unsigned char c : s) {
    switch (c) {
      case '"': out += "\\\""; break;
      case '\\': out += "\\\\"; break;
      case '\b': out += "\\b"; break;
      case '\f': out += "\\f"; break;
      case '\n': out += "\\n"; break;
      case '\r': out += "\\r"; break;
      case '\t': out += "\\t"; break;
      case 0: out += "\\u0000"; break;
      default: out += (char)c;
    }
  }
  out += '"';
}

// Decode one UTF-8 scalar at s[i]; returns length (0 if invalid there).
inline int utf8_decode(const std::string& s, size_t i, uint32_t& cp) {
  unsigned char c = (unsigned char)s[i];
  auto cont = [&](size_t k) { return k < s.size() && ((unsigned char)s[k] & 0xC0) == 0x80; };
  if (c < 0x80) { cp = c; return 1; }
  if (c >= 0xC2 && c <= 0xDF && cont(i + 1)) { cp = ((c & 0x1F) << 6) | (s[i + 1] & 0x3F); return 2; }
  if (c >= 0xE0 && c <= 0xEF && cont(i + 1) && cont(i + 2)) {
    cp = ((c & 0x0F) << 12) | ((s[i + 1] & 0x3F) << 6) | (s[i + 2] & 0x3F);
    if (cp < 0x800 || (cp >= 0xD800 && cp <= 0xDFFF)) return 0;
    return 3;
  }
  if (c >= 0xF0 && c <= 0xF4 && cont(i + 1) && cont(i + 2) && cont(i + 3)) {
    cp = ((c & 0x07) << 18) | ((s[i + 1] & 0x3F) << 12) | ((s[i + 2] & 0x3F) << 6) | (s[i + 3] & 0x3F);
    if (cp < 0x10000 || cp > 0x10FFFF) return 0;
    return 4;
  }
  return 0;
}

inline void put_u16_escape(std::string& out, uint32_t u, Rng& r) {
  static const char* lo = "0123456789abcdef"; static const char* up = "0123456789ABCDEF";
  out += "\\u";
  for (int sh = 12; sh >= 0; sh -= 4) { const char* d = r.coin() ? lo : up; out += d[(u >> sh) & 15]; }
}

// Random but RFC 8259-valid spelling of a string.
inline void json_escape_random(const std::string& s, std::string& out, Rng& r, int escape_weight /*0..10*/) {
  out += '"';
  for (size_t i = 0; i < s.size();) {
    uint32_t cp; int n = utf8_decode(s, i, cp);
    if (n == 0) { out += s[i]; i++; continue; }  // invalid UTF-8: only raw possible
    bool must = cp < 0x20 || cp == '"' || cp == '\\';
    bool esc = must || (int)r.below(10) < escape_weight;
    if (!esc) { out.append(s, i, (size_t)n); i += n; continue; }
    const char* shortesc = nullptr;
    switch (cp) {
      case '"': shortesc = "\\\""; break; case '\\': shortesc = "\\\\"; break; case '/': shortesc = "\\/"; break;
      case '\b': shortesc = "\\b"; break; case '\f': shortesc = "\\f"; break; case '\n': shortesc = "\\n"; break;
      case '\r': shortesc = "\\r"; break; case '\t': shortesc = "\\t"; break;
    }
    if (shortesc && r.chance(2, 3)) out += shortesc;
    else if (cp < 0x10000) put_u16_escape(out, cp, r);
    else { uint32_t v = cp - 0x10000; put_u16_escape(out, 0xD800 + (v >> 10), r); put_u16_escape(out, 0xDC00 + (v & 0x3FF), r); }
    i += n;
  }
  out += '"';
}

// Random RFC 8259 float literal near v (contains '.' or exponent, <= 63 chars).
// Returns the literal; the denoted value is strtod(literal).
inline std::string json_float_spelling(double v, Rng& r) {
  char buf[512];
  for (int attempt = 0; attempt < 8; attempt++) {
    int p = (int)r.range(1, 17);
    switch (r.below(4)) {
      case 0: snprintf(buf, sizeof buf, "%.*g", p, v); break;
      case 1: snprintf(buf, sizeof buf, "%.*e", p - 1, v); break;
      case 2: if (fabs(v) < 1e15 && fabs(v) > 1e-5) { snprintf(buf, sizeof buf, "%.*f", (int)r.range(1, 12), v); break; } /* fallthrough */
      default: snprintf(buf, sizeof buf, "%.17g", v);
    }
    std::string s = buf;
    if (s.find_first_of("nN") != std::string::npos && s.find("inf") != std::string::npos) return "0.0";
    size_t e = s.find('e');
    if (e != std::string::npos) {
      // exponent variations: E, explicit +, leading zeros; strip glibc's two-digit padding sometimes
      std::string mant = s.substr(0, e), ex = s.substr(e + 1);
      bool neg = ex[0] == '-'; if (ex[0] == '-' || ex[0] == '+') ex = ex.substr(1);
      while (ex.size() > 1 && ex[0] == '0' && r.coin()) ex = ex.substr(1);
      if (r.chance(1, 6)) ex = std::string((size_t)r.range(1, 3), '0') + ex;
      s = mant + (r.coin() ? "e" : "E") + (neg ? "-" : (r.coin() ? "+" : "")) + ex;
    }
    if (s.find_first_of(".eE") == std::string::npos) s += r.coin() ? ".0" : (r.coin() ? "e0" : ".00");
    if (s.size() <= 63) return s;
  }
  snprintf(buf, sizeof buf, "%.6e", v);
  return buf;
}

struct RenderOpt {
  bool random_ws = false;       // RFC whitespace between tokens
  int escape_weight = 0;        // >0: random escape spelling (needs rng)
  bool canonical_escape = true; // used when escape_weight==0
  bool use_float_spelling = true;  // Float nodes carry their literal in .s
  bool pretty = false;          // ArduinoJson-like pretty layout (2 spaces, CRLF)
};

inline void ws(std::string& out, Rng* r, const RenderOpt& o) {
  if (!o.random_ws || !r) return;
  if (!r->chance(1, 3)) return;
  int n = (int)r->range(1, 3);
  static const char w[] = {' ', '\t', '\n', '\r'};
  for (int i = 0; i < n; i++) out += r->pick(w);
}

inline void render_json_into(const MVal& v, std::string& out, const RenderOpt& o, Rng* r, int indent = 0) {
  char buf[64];
  auto str = [&](const std::string& s) {
    if (o.escape_weight > 0 && r) json_escape_random(s, out, *r, o.escape_weight);
    else json_escape_canonical(s, out);
  };
  auto nl = [&](int ind) { out += "\r\n"; for (int i = 0; i < ind; i++) out += "  "; };
  switch (v.k) {
    case MVal::Null: out += "null"; break;
    case MVal::Bool: out += v.b ? "true" : "false"; break;
    case MVal::Int: out += int_to_string(v.neg, v.mag); break;
    case MVal::Float:
      if (o.use_float_spelling && !v.s.empty()) out += v.s;
      else if (v.f != v.f || isinf(v.f)) out += "null";
      else { snprintf(buf, sizeof buf, "%.17g", v.f); out += buf; if (!strpbrk(buf, ".e")) out += ".0"; }
      break;
    case MVal::Str: str(v.s); break;
    case MVal::Raw: case MVal::Bin: case MVal::Ext: out += v.s; break;
    case MVal::Arr:
      out += '[';
      if (o.pretty && !v.a.empty()) {
        for (size_t i = 0; i < v.a.size(); i++) { nl(indent + 1); render_json_into(v.a[i], out, o, r, indent + 1); if (i + 1 < v.a.size()) out += ','; }
        nl(indent);
      } else {
        ws(out, r, o);
        for (size_t i = 0; i < v.a.size(); i++) {
          if (i) { out += ','; ws(out, r, o); }
          render_json_into(v.a[i], out, o, r, indent);
          ws(out, r, o);
        }
      }
      out += ']';
      break;
    case MVal::Obj:
      out += '{';
      if (o.pretty && !v.o.empty()) {
        for (size_t i = 0; i < v.o.size(); i++) {
          nl(indent + 1); str(v.o[i].first); out += ": ";
          render_json_into(v.o[i].second, out, o, r, indent + 1);
          if (i + 1 < v.o.size()) out += ',';
        }
        nl(indent);
      } else {
        ws(out, r, o);
        for (size_t i = 0; i < v.o.size(); i++) {
          if (i) { out += ','; ws(out, r, o); }
          str(v.o[i].first); ws(out, r, o); out += ':'; ws(out, r, o);
          render_json_into(v.o[i].second, out, o, r, indent);
          ws(out, r, o);
        }
      }
      out += '}';
      break;
  }
}

inline std::string render_json(const MVal& v, const RenderOpt& o = RenderOpt(), Rng* r = nullptr) {
  std::string out; render_json_into(v, out, o, r); return out;
}

// Give every Float node a random literal (.s) and make .f the value it denotes.
inline void respell_floats(MVal& v, Rng& r) {
  if (v.k == MVal::Float) {
    v.s = json_float_spelling(v.f, r);
    // now and then padded with fraction zeros to 61..63 characters: the longest number tokens the deserializer takes
    size_t dot = v.s.find('.');
    if (dot != std::string::npos && v.s.size() < 61 && r.chance(1, 24)) {
      size_t e = v.s.find_first_of("eE");
      v.s.insert(e == std::string::npos ? v.s.size() : e, std::string((size_t)r.range(61, 63) - v.s.size(), '0'));
    }
    v.f = strtod(v.s.c_str(), nullptr);
  }
  for (auto& e : v.a) respell_floats(e, r);
  for (auto& e : v.o) respell_floats(e.second, r);
}

// number of significant digits of a decimal literal (digits after stripping
// leading zeros of the mantissa; exponent excluded)
inline int significant_digits(const std::string& lit) {
  int n = 0; bool started = false;
  for (char c : lit) {
    if (c == 'e' || c == 'E') break;
    if (c >= '0' && c <= '9') { if (c != '0') started = true; if (started) n++; }
  }
  return n;
}

// ------------------------------------------------------------------ parser

struct JsonParseOpt {
  bool keep_literals = true;          // number nodes keep their literal in .s
  bool allow_raw_controls = true;     // accept unescaped 0x01..0x1F inside strings (see DESIGN don't-care 12)
  size_t max_depth = 100000;
};

class StrictJsonParser {
  const std::string& t_;
  size_t p_ = 0;
  JsonParseOpt o_;
  std::string err_;

 public:
  StrictJsonParser(const std::string& t, JsonParseOpt o = JsonParseOpt()) : t_(t), o_(o) {}
  const std::string& error() const { return err_; }
  size_t pos() const { return p_; }

  // Parse exactly one JSON text (with optional surrounding whitespace).
  bool parse_text(MVal& out) {
    skip_ws();
    if (!value(out, 0)) return false;
    skip_ws();
    if (p_ != t_.size()) return fail("trailing bytes");
    return true;
  }
  // Parse one value starting at current position (for streams); leaves pos after it.
  bool parse_one(MVal& out) { skip_ws(); return value(out, 0); }
  bool at_end() { skip_ws(); return p_ == t_.size(); }

 private:
  bool fail(const char* m) { if (err_.empty()) err_ = std::string(m) + " at " + std::to_string(p_); return false; }
  void skip_ws() { while (p_ < t_.size() && (t_[p_] == ' ' || t_[p_] == '\t' || t_[p_] == '\n' || t_[p_] == '\r')) p_++; }
  bool lit(const char* w) { size_t n = strlen(w); if (t_.compare(p_, n, w) != 0) return fail("bad literal"); p_ += n; return true; }

  bool hex4(uint32_t& u) {
    if (p_ + 4 > t_.size()) return fail("short \\u");
    u = 0;
    for (int i = 0; i < 4; i++) {
      char c = t_[p_++]; int d;
      if (c >= '0' && c <= '9') d = c - '0'; else if (c >= 'a' && c <= 'f') d = c - 'a' + 10; else if (c >= 'A' && c <= 'F') d = c - 'A' + 10; else return fail("bad hex");
      u = (u << 4) | (uint32_t)d;
    }
    return true;
  }

  bool string(std::string& s) {
    if (p_ >= t_.size() || t_[p_] != '"') return fail("expected string");
    p_++;
    for (;;) {
      if (p_ >= t_.size()) return fail("unterminated string");
      unsigned char c = (unsigned char)t_[p_++];
      if (c == '"') return true;
      if (c < 0x20 && !(o_.allow_raw_controls && c != 0)) return fail("raw control char in string");
      if (c != '\\') { s += (char)c; continue; }
      if (p_ >= t_.size()) return fail("unterminated escape");
      char e = t_[p_++];
      switch (e) {
        case '"': s += '"'; break; case '\\': s += '\\'; break; case '/': s += '/'; break;
        case 'b': s += '\b'; break; case 'f': s += '\f'; break; case 'n': s += '\n'; break;
        case 'r': s += '\r'; break; case 't': s += '\t'; break;
        case 'u': {
          uint32_t u; if (!hex4(u)) return false;
          if (u >= 0xD800 && u <= 0xDBFF && p_ + 6 <= t_.size() && t_[p_] == '\\' && t_[p_ + 1] == 'u') {
            size_t save = p_; p_ += 2; uint32_t lo; if (!hex4(lo)) return false;
            if (lo >= 0xDC00 && lo <= 0xDFFF) u = 0x10000 + ((u - 0xD800) << 10) + (lo - 0xDC00);
            else p_ = save;
          }
          append_utf8(s, u);
          break;
        }
        default: return fail("bad escape");
      }
    }
  }

  bool number(MVal& out) {
    size_t b = p_;
    if (p_ < t_.size() && t_[p_] == '-') p_++;
    if (p_ >= t_.size()) return fail("bad number");
    if (t_[p_] == '0') p_++;
    else if (t_[p_] >= '1' && t_[p_] <= '9') { while (p_ < t_.size() && isdigit((unsigned char)t_[p_])) p_++; }
    else return fail("bad number");
    bool integer = true;
    if (p_ < t_.size() && t_[p_] == '.') {
      integer = false; p_++;
      if (p_ >= t_.size() || !isdigit((unsigned char)t_[p_])) return fail("bad fraction");
      while (p_ < t_.size() && isdigit((unsigned char)t_[p_])) p_++;
    }
    if (p_ < t_.size() && (t_[p_] == 'e' || t_[p_] == 'E')) {
      integer = false; p_++;
      if (p_ < t_.size() && (t_[p_] == '+' || t_[p_] == '-')) p_++;
      if (p_ >= t_.size() || !isdigit((unsigned char)t_[p_])) return fail("bad exponent");
      while (p_ < t_.size() && isdigit((unsigned char)t_[p_])) p_++;
    }
    std::string l = t_.substr(b, p_ - b);
    bool done = false;
    if (integer) {
      bool neg = l[0] == '-';
      unsigned __int128 m = 0; bool big = false;
      for (size_t i = neg ? 1 : 0; i < l.size(); i++) { m = m * 10 + (unsigned)(l[i] - '0'); if (m > ((unsigned __int128)1 << 64)) { big = true; break; } }
      if (!big && (neg ? m <= ((unsigned __int128)1 << 63) : m < ((unsigned __int128)1 << 64))) {
        out = MVal::uint((uint64_t)m); out.neg = neg && m != 0; done = true;
      }
    }
    if (!done) out = MVal::flt(strtod(l.c_str(), nullptr));
    if (o_.keep_literals) out.s = l;
    return true;
  }

  bool value(MVal& out, size_t depth) {
    if (depth > o_.max_depth) return fail("too deep");
    if (p_ >= t_.size()) return fail("unexpected end");
    char c = t_[p_];
    switch (c) {
      case 'n': out = MVal::null(); return lit("null");
      case 't': out = MVal::boolean(true); return lit("true");
      case 'f': out = MVal::boolean(false); return lit("false");
      case '"': { out = MVal::str(""); return string(out.s); }
      case '[': {
        p_++; out = MVal::arr(); skip_ws();
        if (p_ < t_.size() && t_[p_] == ']') { p_++; return true; }
        for (;;) {
          MVal e; skip_ws(); if (!value(e, depth + 1)) return false; out.a.push_back(std::move(e)); skip_ws();
          if (p_ >= t_.size()) return fail("unterminated array");
          if (t_[p_] == ',') { p_++; continue; }
          if (t_[p_] == ']') { p_++; return true; }
          return fail("expected , or ]");
        }
      }
      case '{': {
        p_++; out = MVal::obj(); skip_ws();
        if (p_ < t_.size() && t_[p_] == '}') { p_++; return true; }
        for (;;) {
          skip_ws(); std::string k; if (!string(k)) return false; skip_ws();
          if (p_ >= t_.size() || t_[p_] != ':') return fail("expected :");
          p_++; skip_ws();
          MVal e; if (!value(e, depth + 1)) return false; out.o.emplace_back(std::move(k), std::move(e)); skip_ws();
          if (p_ >= t_.size()) return fail("unterminated object");
          if (t_[p_] == ',') { p_++; continue; }
          if (t_[p_] == '}') { p_++; return true; }
          return fail("expected , or }");
        }
      }
      default:
        if (c == '-' || (c >= '0' && c <= '9')) return number(out);
        return fail("unexpected byte");
    }
  }
};

inline bool parse_json_strict(const std::string& text, MVal& out, std::string* err = nullptr, JsonParseOpt o = JsonParseOpt()) {
  StrictJsonParser p(text, o);
  bool ok = p.parse_text(out);
  if (!ok && err) *err = p.error();
  return ok;
}

// Remove insignificant whitespace (outside strings) from a JSON text.
inline std::string strip_json_ws(const std::string& t) {
  std::string r; bool in = false;
  for (size_t i = 0; i < t.size(); i++) {
    char c = t[i];
    if (in) { r += c; if (c == '\\' && i + 1 < t.size()) r += t[++i]; else if (c == '"') in = false; }
    else if (c == '"') { in = true; r += c; }
    else if (c == ' ' || c == '\t' || c == '\n' || c == '\r') continue;
    else r += c;
  }
  return r;
}

// Collect number literals of Float nodes in document order (from a tree parsed
// with keep_literals) – used to rebuild the expected text byte for byte.
inline void collect_float_literals(const MVal& v, std::vector<std::string>& out) {
  if (v.k == MVal::Float) out.push_back(v.s);
  for (auto& e : v.a) collect_float_literals(e, out);
  for (auto& e : v.o) collect_float_literals(e.second, out);
}

}  // namespace vf
