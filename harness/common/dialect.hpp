// Three-valued recogniser of the JSON dialect deserializeJson documents:
// RFC 8259 + single-quoted strings + unquoted identifier keys + lenient number
// spellings + arbitrary bytes after a complete top-level value + (by option)
// comments, NaN, Infinity.  Stops at the FIRST offending position and
// classifies it.  Written as explicit lexer + recogniser; independent of the
// library.  Input must not contain NUL (NUL ends a JSON input).
#pragma once
#include <set>
#include "mval.hpp"
#include "refnum.hpp"
#include "gen_value.hpp"

namespace vf {

enum DCode { D_OK = 0, D_EMPTY = 1, D_INCOMPLETE = 2, D_INVALID = 3, D_NOMEM = 4, D_TOODEEP = 5 };

struct DialectOpt {
  bool comments = false, nan = false, inf = false, decode_unicode = true;
  int limit = 10;
  size_t max_string = 65535;
};

struct Verdict {
  enum K { MustOk, MustFail, DontCare } k = DontCare;
  MVal value;                 // MustOk
  bool value_loose = false;   // MustOk but string contents are not determined (unpaired surrogates)
  std::set<int> codes;        // MustFail: acceptable error codes
  std::string note;
  size_t pos = 0;             // where the verdict was reached
};

class DialectRecogniser {
  const std::string& t_; DialectOpt o_; size_t p_ = 0; bool found_ = false;
  Verdict v_; bool done_ = false; bool loose_ = false;

 public:
  DialectRecogniser(const std::string& t, const DialectOpt& o) : t_(t), o_(o) {}

  Verdict run() {
    MVal val;
    bool isnum = false;
    if (value(val, 0, isnum)) {
      v_.k = Verdict::MustOk; v_.value = std::move(val); v_.value_loose = loose_; v_.pos = p_;
      if (isnum && p_ < t_.size()) {
        char c = t_[p_];
        if (!(c == ' ' || c == '\t' || c == '\r' || c == '\n')) { v_.k = Verdict::DontCare; v_.note = "top-level number followed by a non-whitespace byte"; }
      }
    }
    return v_;
  }

 private:
  bool eof() const { return p_ >= t_.size(); }
  char cur() const { return t_[p_]; }
  bool fail(int code, const char* note) { if (!done_) { done_ = true; v_.k = Verdict::MustFail; v_.codes = {code}; v_.note = note; v_.pos = p_; } return false; }
  bool fail2(int c1, int c2, const char* note) { if (!done_) { done_ = true; v_.k = Verdict::MustFail; v_.codes = {c1, c2}; v_.note = note; v_.pos = p_; } return false; }
  bool dontcare(const char* note) { if (!done_) { done_ = true; v_.k = Verdict::DontCare; v_.note = note; v_.pos = p_; } return false; }

  // whitespace and (optionally) comments; false => verdict set
  bool skip() {
    for (;;) {
      if (eof()) return fail(found_ ? D_INCOMPLETE : D_EMPTY, "end of input");
      char c = cur();
      if (c == ' ' || c == '\t' || c == '\r' || c == '\n') { p_++; continue; }
      if (o_.comments && c == '/') {
        p_++;
        if (eof()) return fail2(D_INVALID, D_INCOMPLETE, "'/' at the end of the input");
        if (cur() == '*') {
          p_++;
          size_t e = t_.find("*/", p_);
          if (e == std::string::npos) { p_ = t_.size(); return fail(D_INCOMPLETE, "unterminated block comment"); }
          p_ = e + 2; continue;
        }
        if (cur() == '/') {
          size_t e = t_.find('\n', p_);
          if (e == std::string::npos) { p_ = t_.size(); return fail(D_INCOMPLETE, "line comment without end of line"); }
          p_ = e; continue;   // the newline itself is whitespace
        }
        return fail(D_INVALID, "'/' that does not start a comment");
      }
      found_ = true;
      return true;
    }
  }

  static bool ishex(char c) { return (c >= '0' && c <= '9') || (c >= 'a' && c <= 'f') || (c >= 'A' && c <= 'F'); }
  static int hexv(char c) { return c <= '9' ? c - '0' : (c | 0x20) - 'a' + 10; }

  bool quoted(std::string& out) {
    char q = cur(); p_++;
    bool have_high = false; uint32_t high = 0;
    for (;;) {
      if (eof()) return fail(D_INCOMPLETE, "end of input inside a string");
      char c = t_[p_++];
      if (c == q) break;
      if (c != '\\') { out += c; continue; }
      if (eof()) return fail(D_INCOMPLETE, "end of input after a backslash");
      char e = cur();
      if (e == 'u') {
        if (!o_.decode_unicode) { out += '\\'; continue; }   // kept verbatim: the 'u' and what follows are ordinary characters
        p_++;
        uint32_t u = 0;
        for (int i = 0; i < 4; i++) {
          if (eof()) return fail(D_INCOMPLETE, "end of input inside \\uXXXX");
          if (!ishex(cur())) return fail(D_INVALID, "non-hexadecimal digit in \\uXXXX");
          u = (u << 4) | (uint32_t)hexv(cur()); p_++;
        }
        if (u >= 0xD800 && u <= 0xDBFF) { if (have_high) loose_ = true; have_high = true; high = u; continue; }
        if (u >= 0xDC00 && u <= 0xDFFF) {
          if (!have_high) { loose_ = true; continue; }
          append_utf8(out, 0x10000 + ((high - 0xD800) << 10) + (u - 0xDC00)); have_high = false; continue;
        }
        if (have_high) { loose_ = true; have_high = false; }
        append_utf8(out, u);
        continue;
      }
      char r;
      switch (e) {
        case '"': r = '"'; break; case '\'': r = '\''; break; case '\\': r = '\\'; break; case '/': r = '/'; break;
        case 'b': r = '\b'; break; case 'f': r = '\f'; break; case 'n': r = '\n'; break; case 'r': r = '\r'; break; case 't': r = '\t'; break;
        default: return fail(D_INVALID, "unknown escape sequence");
      }
      p_++;
      if (have_high) loose_ = true;
      out += r;
    }
    if (have_high) loose_ = true;
    if (out.size() > o_.max_string) return fail(D_NOMEM, "string longer than the configured maximum");
    return true;
  }

  static bool idchar(char c) { return (c >= '0' && c <= '9') || (c >= 'a' && c <= 'z') || (c >= 'A' && c <= 'Z') || c == '_'; }

  bool key(std::string& out) {
    if (cur() == '"' || cur() == '\'') return quoted(out);
    if (cur() == '`') return dontcare("backquote in an unquoted key");
    if (!idchar(cur())) return fail(D_INVALID, "neither a quoted string nor an identifier where a key is expected");
    while (!eof() && (idchar(cur()) || cur() == '`')) { if (cur() == '`') return dontcare("backquote in an unquoted key"); out += t_[p_++]; }
    if (out.size() > o_.max_string) return fail(D_NOMEM, "key longer than the configured maximum");
    return true;
  }

  bool numchar(char c) const {
    if ((c >= '0' && c <= '9') || c == '+' || c == '-' || c == '.') return true;
    if (o_.nan || o_.inf) return (c >= 'A' && c <= 'Z') || (c >= 'a' && c <= 'z');
    return c == 'e' || c == 'E';
  }

  // lenient number grammar: [+-]? digits* ('.' digits*)? ([eE] [+-]? digits*)?  with a digit or '.' right after the sign
  bool number(MVal& out) {
    size_t b = p_;
    while (!eof() && numchar(cur())) p_++;
    std::string tok = t_.substr(b, p_ - b);
    // number literals are limited to 63 characters: a longer token is never a number of the dialect (its 64th character
    // cannot follow a value), whatever its first 63 characters spell
    if (tok.size() > 63) { p_ = b; return fail(D_INVALID, "number token longer than 63 characters"); }
    size_t i = 0;
    bool neg = false;
    if (i < tok.size() && (tok[i] == '-' || tok[i] == '+')) { neg = tok[i] == '-'; i++; }
    if (o_.nan && i < tok.size() && (tok[i] == 'n' || tok[i] == 'N')) { out = MVal::flt(NAN); return true; }
    if (o_.inf && i < tok.size() && (tok[i] == 'i' || tok[i] == 'I')) { out = MVal::flt(neg ? -INFINITY : INFINITY); return true; }
    auto bad = [&]() {
      p_ = b;
      if (b + tok.size() >= t_.size() && !tok.empty()) return fail2(D_INVALID, D_INCOMPLETE, "malformed number at the end of the input");
      return fail(D_INVALID, "not a value");
    };
    if (i >= tok.size() || !(isdigit((unsigned char)tok[i]) || tok[i] == '.')) return bad();
    bool integer = true;
    while (i < tok.size() && isdigit((unsigned char)tok[i])) i++;
    if (i < tok.size() && tok[i] == '.') { integer = false; i++; while (i < tok.size() && isdigit((unsigned char)tok[i])) i++; }
    if (i < tok.size() && (tok[i] == 'e' || tok[i] == 'E')) { integer = false; i++; if (i < tok.size() && (tok[i] == '+' || tok[i] == '-')) i++; while (i < tok.size() && isdigit((unsigned char)tok[i])) i++; }
    if (i != tok.size()) return bad();
    // value: strtold understands every spelling above except a bare exponent marker / bare dot; normalise
    std::string norm = tok;
    { size_t e = norm.find_first_of("eE"); if (e != std::string::npos && (e + 1 == norm.size() || ((norm[e + 1] == '+' || norm[e + 1] == '-') && e + 2 == norm.size()))) norm = norm.substr(0, e); }
    if (norm == "." || norm == "+." || norm == "-.") norm = neg ? "-0." : "0.";
    LitInfo li = analyse_literal(norm);
    if (integer && li.int_in_range) { out = MVal::uint((uint64_t)li.mag); out.neg = li.neg && li.mag != 0; }
    else { out = MVal::flt((double)li.v); }
    out.s = norm;   // literal kept for tolerance decisions
    return true;
  }

  bool keyword(const char* w, MVal val, MVal& out) {
    for (size_t i = 0; w[i]; i++) {
      if (eof()) return fail(D_INCOMPLETE, "end of input inside a literal name");
      if (cur() != w[i]) return fail(D_INVALID, "misspelled literal name");
      p_++;
    }
    out = std::move(val);
    return true;
  }

  bool value(MVal& out, int depth, bool& isnum) {
    isnum = false;
    if (!skip()) return false;
    char c = cur();
    if (c == '[') {
      if (depth >= o_.limit) return fail(D_TOODEEP, "array opened beyond the nesting limit");
      p_++;
      out = MVal::arr();
      if (!skip()) return false;
      if (cur() == ']') { p_++; return true; }
      for (;;) {
        MVal e; bool n2;
        if (!value(e, depth + 1, n2)) return false;
        out.a.push_back(std::move(e));
        if (!skip()) return false;
        if (cur() == ']') { p_++; return true; }
        if (cur() != ',') return fail(D_INVALID, "neither ',' nor ']' after an array element");
        p_++;
      }
    }
    if (c == '{') {
      if (depth >= o_.limit) return fail(D_TOODEEP, "object opened beyond the nesting limit");
      p_++;
      out = MVal::obj();
      if (!skip()) return false;
      if (cur() == '}') { p_++; return true; }
      for (;;) {
        std::string k;
        if (!key(k)) return false;
        if (!skip()) return false;
        if (cur() != ':') return fail(D_INVALID, "no ':' after an object key");
        p_++;
        MVal e; bool n2;
        if (!value(e, depth + 1, n2)) return false;
        if (MVal* prev = out.find(k)) *prev = std::move(e); else out.o.emplace_back(std::move(k), std::move(e));
        if (!skip()) return false;
        if (cur() == '}') { p_++; return true; }
        if (cur() != ',') return fail(D_INVALID, "neither ',' nor '}' after an object member");
        p_++;
        if (!skip()) return false;
      }
    }
    if (c == '"' || c == '\'') { out = MVal::str(""); return quoted(out.s); }
    if (c == 't') return keyword("true", MVal::boolean(true), out);
    if (c == 'f') return keyword("false", MVal::boolean(false), out);
    if (c == 'n') return keyword("null", MVal::null(), out);
    isnum = true;
    return number(out);
  }
};

inline Verdict dialect(const std::string& text, const DialectOpt& o) {
  DialectRecogniser d(text, o);
  return d.run();
}

}  // namespace vf
