// Worker-process skeleton shared by all drivers.
//
//   driver --mode M --seed S --count N --worker w --workers W --out F --crumb C [--start I]
//   driver --mode M --seed S --only I [--verbose]          (replay of one case)
//   driver --total M                                       (size of an exhaustive index space, 0 = unbounded)
//   driver --merge-u64 f1 f2 ...                           (distinct count over sorted u64 files)
//
// A driver defines:
//   void vf_run_case(vf::Ctx& c, uint64_t index);
//   uint64_t vf_total(const std::string& mode);     // 0 when the mode is open-ended
//   optional: void vf_begin(vf::Ctx&), void vf_end(vf::Ctx&)
//
// Every case is a pure function of (seed, mode, index).  Before each case the
// index is written to the crumb file so that the parent can attribute a crash
// (sanitizer abort, SIGSEGV, assertion, hang) to the case that caused it.
#pragma once
#include <fcntl.h>
#include <stdio.h>
#include <stdlib.h>
#include <string.h>
#include <unistd.h>
#include <algorithm>
#include <map>
#include <string>
#include <vector>
#include "prng.hpp"

namespace vf {

inline std::string json_quote(const std::string& s) {
  std::string r = "\"";
  char buf[8];
  for (unsigned char c : s) {
    if (c == '"') r += "\\\"";
    else if (c == '\\') r += "\\\\";
    else if (c < 0x20 || c >= 0x7f) { snprintf(buf, sizeof buf, "\\u%04x", c); r += buf; }
    else r += (char)c;
  }
  return r + "\"";
}

struct DistinctSet {
  std::vector<uint64_t> v;
  size_t uniq = 0;
  bool capped = false;
  static const size_t CAP = 16u << 20;
  void add(uint64_t h) {
    if (capped) return;
    v.push_back(h);
    if (v.size() >= 2 * uniq + (1u << 20)) compact();
  }
  void compact() {
    std::sort(v.begin(), v.end());
    v.erase(std::unique(v.begin(), v.end()), v.end());
    uniq = v.size();
    if (uniq >= CAP) capped = true;
  }
};

struct Ctx {
  uint64_t seed = 1;
  std::string mode;
  uint64_t index = 0;
  bool verbose = false;
  bool replay = false;
  uint64_t tier = 0;  // 0 quick, 1 thorough (drivers may scale inner loops)

  uint64_t evaluations = 0;
  uint64_t violations = 0;
  std::map<std::string, uint64_t> outcomes;
  std::map<std::string, uint64_t> counters;
  std::map<std::string, DistinctSet> sets;
  std::vector<std::string> samples;
  uint64_t sample_seen = 0;
  FILE* out = nullptr;
  Rng sample_rng{12345};

  void outcome(const std::string& cls, uint64_t n = 1) { outcomes[cls] += n; }
  void count(const std::string& name, uint64_t n = 1) { counters[name] += n; }
  void maxcount(const std::string& name, uint64_t n) { auto& c = counters[name]; if (n > c) c = n; }
  void distinct(const std::string& set, uint64_t h) { sets[set].add(h); }
  void nontrivial(uint64_t h) { distinct("nontrivial", h); }
  // keep the first 3 and a reservoir of 5 more
  void sample(const std::string& s) {
    sample_seen++;
    std::string t = "#" + std::to_string(index) + " " + s;
    if (samples.size() < 8) { samples.push_back(t); return; }
    uint64_t j = sample_rng.below(sample_seen);
    if (j < 5) samples[3 + j] = t;
  }
  bool want_sample() { return sample_seen < 3 || (sample_rng.next() & 1023) == 0; }

  // Free-form record for offline checkers (cross-configuration comparison): one JSON object per line.
  void record(const std::string& json_fields) {
    if (!out) return;
    fprintf(out, "{\"t\":\"rec\",\"index\":%llu,%s}\n", (unsigned long long)index, json_fields.c_str());
  }

  // Report a violation of the property.  clause = short stable name of the
  // oracle clause; detail = what differs; witness = the case, written out.
  void violation(const std::string& clause, const std::string& detail, const std::string& witness) {
    violations++;
    if (verbose) fprintf(stderr, "VIOLATION-DETAIL clause=%s detail=%s\n  witness=%s\n", clause.c_str(), detail.c_str(), witness.c_str());
    if (!out || violations > 200) return;
    fprintf(out, "{\"t\":\"viol\",\"mode\":%s,\"index\":%llu,\"clause\":%s,\"detail\":%s,\"witness\":%s}\n",
            json_quote(mode).c_str(), (unsigned long long)index, json_quote(clause).c_str(),
            json_quote(detail.substr(0, 1500)).c_str(), json_quote(witness.substr(0, 3000)).c_str());
    fflush(out);
  }
};

}  // namespace vf

void vf_run_case(vf::Ctx& c, uint64_t index);
uint64_t vf_total(const std::string& mode);
void vf_begin(vf::Ctx&) __attribute__((weak));
void vf_end(vf::Ctx&) __attribute__((weak));

namespace vf {

inline int merge_u64(int argc, char** argv, int first) {
  std::vector<uint64_t> all;
  for (int i = first; i < argc; i++) {
    FILE* f = fopen(argv[i], "rb");
    if (!f) continue;
    fseek(f, 0, SEEK_END); long n = ftell(f); fseek(f, 0, SEEK_SET);
    size_t old = all.size(); all.resize(old + (size_t)n / 8);
    if (fread(all.data() + old, 8, (size_t)n / 8, f) != (size_t)n / 8) { fclose(f); return 2; }
    fclose(f);
  }
  std::sort(all.begin(), all.end());
  all.erase(std::unique(all.begin(), all.end()), all.end());
  printf("%zu\n", all.size());
  return 0;
}

inline int driver_main(int argc, char** argv) {
  Ctx c;
  uint64_t count = 0, worker = 0, workers = 1, start = 0;
  long long only = -1;
  std::string outp, crumbp;
  for (int i = 1; i < argc; i++) {
    std::string a = argv[i];
    auto next = [&]() -> const char* { return i + 1 < argc ? argv[++i] : ""; };
    if (a == "--mode") c.mode = next();
    else if (a == "--seed") c.seed = strtoull(next(), 0, 10);
    else if (a == "--count") count = strtoull(next(), 0, 10);
    else if (a == "--worker") worker = strtoull(next(), 0, 10);
    else if (a == "--workers") workers = strtoull(next(), 0, 10);
    else if (a == "--start") start = strtoull(next(), 0, 10);
    else if (a == "--tier") c.tier = strtoull(next(), 0, 10);
    else if (a == "--out") outp = next();
    else if (a == "--crumb") crumbp = next();
    else if (a == "--only") only = strtoll(next(), 0, 10);
    else if (a == "--verbose") c.verbose = true;
    else if (a == "--total") { printf("%llu\n", (unsigned long long)vf_total(next())); return 0; }
    else if (a == "--merge-u64") return merge_u64(argc, argv, i + 1);
    else { fprintf(stderr, "unknown arg %s\n", a.c_str()); return 2; }
  }
  uint64_t total = vf_total(c.mode);
  if (count == 0 || (total && count > total)) count = total;
  if (!outp.empty()) { c.out = fopen(outp.c_str(), "w"); if (!c.out) { perror("out"); return 2; } }
  int crumb = -1;
  if (!crumbp.empty()) crumb = open(crumbp.c_str(), O_WRONLY | O_CREAT | O_TRUNC, 0644);
  if (vf_begin) vf_begin(c);
  if (only >= 0) {
    c.replay = true; c.verbose = true; c.index = (uint64_t)only;
    c.evaluations++;
    vf_run_case(c, (uint64_t)only);
    for (auto& s : c.samples) fprintf(stderr, "case: %s\n", s.c_str());
    for (auto& o : c.outcomes) fprintf(stderr, "outcome %s=%llu\n", o.first.c_str(), (unsigned long long)o.second);
    fprintf(stderr, "violations=%llu\n", (unsigned long long)c.violations);
    return c.violations ? 1 : 0;
  }
  // first index >= start belonging to this worker
  uint64_t i = start + ((worker + workers - start % workers) % workers);
  for (; i < count; i += workers) {
    if (crumb >= 0) { char buf[32]; int n = snprintf(buf, sizeof buf, "%-20llu\n", (unsigned long long)i); if (pwrite(crumb, buf, (size_t)n, 0) < 0) {} }
    c.index = i;
    c.evaluations++;
    vf_run_case(c, i);
  }
  if (vf_end) vf_end(c);
  if (c.out) {
    std::string s = "{\"t\":\"summary\",\"evaluations\":" + std::to_string(c.evaluations) + ",\"violations\":" + std::to_string(c.violations);
    s += ",\"outcomes\":{";
    bool f = true;
    for (auto& o : c.outcomes) { if (!f) s += ","; f = false; s += json_quote(o.first) + ":" + std::to_string(o.second); }
    s += "},\"counters\":{"; f = true;
    for (auto& o : c.counters) { if (!f) s += ","; f = false; s += json_quote(o.first) + ":" + std::to_string(o.second); }
    s += "},\"sets\":{"; f = true;
    for (auto& kv : c.sets) {
      kv.second.compact();
      std::string fn = outp + "." + kv.first + ".u64";
      FILE* sf = fopen(fn.c_str(), "wb");
      if (sf) { fwrite(kv.second.v.data(), 8, kv.second.v.size(), sf); fclose(sf); }
      if (!f) s += ","; f = false;
      s += json_quote(kv.first) + ":{\"n\":" + std::to_string(kv.second.v.size()) + ",\"capped\":" + (kv.second.capped ? "true" : "false") + "}";
    }
    s += "},\"samples\":[";
    f = true;
    for (auto& x : c.samples) { if (!f) s += ","; f = false; s += json_quote(x.substr(0, 1200)); }
    s += "]}\n";
    fputs(s.c_str(), c.out);
    fclose(c.out);
  }
  return 0;
}

}  // namespace vf

#ifndef VF_NO_MAIN
int main(int argc, char** argv) { return vf::driver_main(argc, argv); }
#endif
