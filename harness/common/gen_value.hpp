// Random MVal generator, boundary-weighted.  Library-independent.
#pragma once
#include <float.h>
#include "mval.hpp"

namespace vf {

struct GenOpt {
  int max_depth = 4;        // containers nested at most this deep (0 = scalars only)
  int max_width = 6;
  int budget = 60;          // soft cap on number of nodes
  bool allow_float = true;
  bool allow_nonfinite = false;   // NaN / inf
  bool float32_only = false;      // every float exactly representable as float
  bool wide_floats = false;       // allow |v| outside [1e-300,1e300] and subnormals
  bool allow_raw_json = false;    // Raw values holding a JSON fragment
  bool allow_raw_msgpack = false; // Raw values holding one MessagePack object
  bool allow_binext = false;
  bool int64 = true;              // false: stay within int32 (USE_LONG_LONG=0 stores 32 bits only)
  int str_mode = 1;               // 0 printable ASCII, 1 valid UTF-8 + controls + NUL, 2 arbitrary bytes
  bool str_nul = true;
  bool key_nul = true;
  bool dup_keys = false;          // allow repeated keys in one object
  size_t max_str = 24;
  size_t long_str = 0;            // if >0, 1/40 strings have length up to this
  bool numeric_strings = true;
};

inline uint64_t gen_boundary_u64(Rng& r) {
  static const int ks[] = {0, 1, 4, 5, 7, 8, 15, 16, 24, 31, 32, 33, 52, 53, 54, 62, 63, 64};
  int k = r.pick(ks);
  uint64_t base = k >= 64 ? 0 : (1ull << k);  // 2^64 wraps to 0
  int64_t d = r.range(-3, 3);
  return base + (uint64_t)d;
}

inline MVal gen_int(Rng& r, const GenOpt& o) {
  MVal m;
  switch (r.below(6)) {
    case 0: m = MVal::sint(r.range(-40, 130)); break;
    case 1: case 2: {
      uint64_t v = gen_boundary_u64(r);
      if (r.coin() && v <= (1ull << 63) && v != 0) { m = MVal::uint(v); m.neg = true; }
      else m = MVal::uint(v);
      break;
    }
    case 3: m = MVal::uint(r.next() >> r.below(64)); break;
    case 4: m = MVal::sint((int64_t)r.next() >> r.below(64)); break;
    default: m = MVal::sint(r.range(-70000, 70000)); break;
  }
  if (!o.int64) {
    // restrict to what a 32-bit JsonInteger/JsonUInt configuration stores
    if (m.neg) { if (m.mag > 0x80000000ull) m.mag = 0x80000000ull - r.below(3); }
    else if (m.mag > 0x7FFFFFFFull) m.mag = 0x7FFFFFFFull - r.below(3);   // (set through a signed C++ type half of the time)
  }
  if (m.mag == 0) m.neg = false;
  return m;
}

inline double gen_double(Rng& r, const GenOpt& o) {
  double v = 0;
  switch (r.below(9)) {
    case 0: { static const double c[] = {0.0, -0.0, 1.0, -1.0, 0.5, 0.1, 3.14, 1e10, 1.5e-7, 123456.789, 1e7, 1e-5, 9999999.0, 0.00001, 1e21, 2.5}; v = r.pick(c); break; }
    case 1: v = (double)r.range(-100000, 100000) / (double)(1 << r.below(12)); break;
    case 2: { int k = (int)r.range(-60, 70); v = ldexp(1.0, k) + (double)r.range(-2, 2) * ldexp(1.0, k - (int)r.below(30)); if (r.coin()) v = -v; break; }
    case 3: { // short decimal
      // exponents: mostly moderate; one in three around the edges of the float and double ranges (the parser's float fast path ends there)
      static const int edge[] = {36, 37, 38, 39, 40, 44, 45, 46, -36, -37, -38, -39, -44, -45, -46, 290, 299, -290, -299, 22, 23, -22, -23};
      int ex = r.chance(1, 3) ? r.pick(edge) : (int)r.range(-30, 30);
      char buf[48];
      if (r.chance(1, 3)) snprintf(buf, sizeof buf, "%de%d", (int)r.range(-99, 99), ex);   // one or two significant digits
      else snprintf(buf, sizeof buf, "%d.%0*de%d", (int)r.range(-99, 99), (int)r.range(1, 6), (int)r.below(1000), ex);
      v = strtod(buf, nullptr); break;
    }
    case 4: v = (double)(float)((double)r.range(-1000000, 1000000) * ldexp(1.0, (int)r.range(-40, 40))); break;
    case 5: { // random finite bits
      uint64_t b = r.next(); double d; memcpy(&d, &b, 8);
      if (!(d == d) || isinf(d)) d = 1.0; v = d; break;
    }
    case 6: { static const int ks[] = {24, 31, 32, 53, 63, 64}; v = ldexp(1.0, r.pick(ks)) + (double)r.range(-3, 3); if (r.coin()) v = -v; break; }
    case 7: { uint32_t b = (uint32_t)r.next(); float f; memcpy(&f, &b, 4); if (!(f == f) || isinf(f)) f = 2.0f; v = f; break; }
    default: v = r.unit() * pow(10.0, (double)r.range(-20, 20)); break;
  }
  if (o.float32_only) {
    float f = (float)v;
    if (isinf(f)) f = FLT_MAX;
    v = f;
  }
  if (!o.wide_floats && v != 0) {
    double a = fabs(v);
    if (a < 1e-300 || a > 1e300 || (o.float32_only && (a < 1e-37 || a > 3e38))) v = (v < 0 ? -1.0 : 1.0) * (1.0 + r.unit());
  }
  if (o.allow_nonfinite && r.chance(1, 12)) {
    switch (r.below(3)) { case 0: v = NAN; break; case 1: v = INFINITY; break; default: v = -INFINITY; }
  }
  return v;
}

inline void append_utf8(std::string& s, uint32_t cp) {
  if (cp < 0x80) s += (char)cp;
  else if (cp < 0x800) { s += (char)(0xC0 | (cp >> 6)); s += (char)(0x80 | (cp & 0x3F)); }
  else if (cp < 0x10000) { s += (char)(0xE0 | (cp >> 12)); s += (char)(0x80 | ((cp >> 6) & 0x3F)); s += (char)(0x80 | (cp & 0x3F)); }
  else { s += (char)(0xF0 | (cp >> 18)); s += (char)(0x80 | ((cp >> 12) & 0x3F)); s += (char)(0x80 | ((cp >> 6) & 0x3F)); s += (char)(0x80 | (cp & 0x3F)); }
}

inline uint32_t gen_codepoint(Rng& r) {
  switch (r.below(8)) {
    case 0: return (uint32_t)r.range(0x80, 0x7FF);
    case 1: { uint32_t c = (uint32_t)r.range(0x800, 0xFFFF); if (c >= 0xD800 && c <= 0xDFFF) c = 0xE000; return c; }
    case 2: return (uint32_t)r.range(0x10000, 0x10FFFF);
    case 3: { static const uint32_t c[] = {0x7F, 0x80, 0x7FF, 0x800, 0xD7FF, 0xE000, 0xFFFF, 0x10000, 0x10FFFF, 0xFFFD, 0x20AC, 0x1F600}; return r.pick(c); }
    default: return (uint32_t)r.range(0x20, 0x7E);
  }
}

inline std::string gen_numeric_literal_simple(Rng& r) {
  static const char* c[] = {"0", "42", "-17", "3.14", "1e3", "-0", "18446744073709551615", "-9223372036854775808", "1.5e-7", " 12", "12abc", "0x10", "+5", ".5", "5.", "1E+2", "007"};
  return r.pick(c);
}

inline std::string gen_string(Rng& r, const GenOpt& o, bool is_key = false) {
  std::string s;
  if (o.numeric_strings && !is_key && r.chance(1, 12)) return gen_numeric_literal_simple(r);
  size_t n;
  if (o.long_str && r.chance(1, 40)) n = (size_t)r.below(o.long_str + 1);
  else {
    switch (r.below(6)) { case 0: n = 0; break; case 1: n = 1; break; case 2: n = (size_t)r.range(30, 34); break; default: n = (size_t)r.below(o.max_str + 1); }
    if (n > o.max_str && o.max_str < 30) n = o.max_str;
  }
  bool nul_ok = is_key ? o.key_nul : o.str_nul;
  for (size_t i = 0; i < n; i++) {
    switch (o.str_mode) {
      case 0: s += (char)r.range(0x20, 0x7E); break;
      case 1: {
        unsigned w = (unsigned)r.below(20);
        if (w == 0) { static const char sp[] = {'"', '\\', '/', '\b', '\f', '\n', '\r', '\t', '\'', 0x7f}; s += r.pick(sp); }
        else if (w == 1) s += (char)r.range(1, 0x1F);
        else if (w == 2 && nul_ok) s += '\0';
        else if (w <= 5) append_utf8(s, gen_codepoint(r));
        else s += (char)r.range(0x20, 0x7E);
        break;
      }
      default: {
        char c = (char)r.below(256);
        if (c == 0 && !nul_ok) c = 'z';
        s += c;
      }
    }
  }
  return s;
}

inline std::string gen_key(Rng& r, const GenOpt& o) {
  // small pool so that duplicates and prefixes of one another are frequent
  static const char* pool[] = {"", "a", "ab", "abc", "b", "k", "key", "*", "0", "1", "id", "a b", "A"};
  unsigned w = (unsigned)r.below(10);
  if (w < 6) return r.pick(pool);
  if (w == 6 && o.key_nul) { std::string s = r.pick(pool); s += '\0'; s += r.pick(pool); return s; }
  return gen_string(r, o, true);
}

// A JSON fragment usable as a raw value (stays parseable in the output).
inline std::string gen_raw_json(Rng& r) {
  static const char* c[] = {"1", "[1,2]", "{\"x\":true}", "\"s\"", "null", "-2.5e3", "[]", "{}", "true", "[[],{\"\":0}]", "12", "123", "1234"};
  return r.pick(c);
}

inline MVal gen_scalar(Rng& r, const GenOpt& o) {
  unsigned w = (unsigned)r.below(16);
  if (w == 0) return MVal::null();
  if (w == 1) return MVal::boolean(r.coin());
  if (w <= 5) return gen_int(r, o);
  if (w <= 8 && o.allow_float) return MVal::flt(gen_double(r, o));
  if (w == 9 && o.allow_raw_json) return MVal::raw(gen_raw_json(r));
  if (w == 10 && o.allow_binext) {
    static const size_t sz[] = {0, 1, 2, 3, 4, 5, 8, 15, 16, 17, 31, 32, 255, 256, 257};
    size_t n = r.pick(sz);
    std::string p; for (size_t i = 0; i < n; i++) p += (char)r.below(256);
    if (r.coin()) return MVal::bin(p);
    return MVal::extv((int8_t)r.range(-128, 127), p);
  }
  if (w <= 9) return gen_int(r, o);
  return MVal::str(gen_string(r, o));
}

inline MVal gen_value_rec(Rng& r, const GenOpt& o, int depth, int& budget) {
  budget--;
  bool container = depth < o.max_depth && budget > 0 && r.chance(depth == 0 ? 3 : 2, 5);
  if (!container) return gen_scalar(r, o);
  int n = (int)r.below((uint64_t)o.max_width + 1);
  if (r.chance(1, 10)) n = 0;
  if (r.coin()) {
    MVal m = MVal::arr();
    for (int i = 0; i < n && budget > 0; i++) m.a.push_back(gen_value_rec(r, o, depth + 1, budget));
    return m;
  }
  MVal m = MVal::obj();
  for (int i = 0; i < n && budget > 0; i++) {
    std::string k = gen_key(r, o);
    MVal v = gen_value_rec(r, o, depth + 1, budget);
    if (!o.dup_keys) {
      if (m.find(k)) { k += "#" + std::to_string(i); }
    }
    m.o.emplace_back(k, std::move(v));
  }
  return m;
}

inline MVal gen_value(Rng& r, const GenOpt& o) {
  int budget = o.budget;
  return gen_value_rec(r, o, 0, budget);
}

// Deep chain used for nesting tests: depth containers around a scalar.
inline MVal gen_chain(Rng& r, int depth, int shape /*0 arrays,1 objects,2 alternating*/) {
  MVal inner = MVal::sint(r.range(0, 9));
  for (int d = depth; d > 0; d--) {
    bool arr = shape == 0 || (shape == 2 && (d & 1));
    MVal m;
    if (arr) { m = MVal::arr(); m.a.push_back(std::move(inner)); }
    else { m = MVal::obj(); m.o.emplace_back("a", std::move(inner)); }
    inner = std::move(m);
  }
  return inner;
}

// When an object has duplicate keys, JSON semantics of the library are:
// position of the first occurrence, value of the last.  Normalize a model
// accordingly (used as expected value for texts with repeated keys).
inline MVal dedup_last_wins(const MVal& v) {
  MVal m = v;
  if (v.k == MVal::Arr) { for (auto& e : m.a) e = dedup_last_wins(e); return m; }
  if (v.k != MVal::Obj) return m;
  m.o.clear();
  for (auto& kv : v.o) {
    MVal c = dedup_last_wins(kv.second);
    if (auto p = m.find(kv.first)) *p = std::move(c);
    else m.o.emplace_back(kv.first, std::move(c));
  }
  return m;
}

}  // namespace vf
