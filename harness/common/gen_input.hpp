// Hostile input generator for the deserializers: valid, truncated, mutated and
// random byte strings in both formats.  Library-independent.
#pragma once
#include "gen_value.hpp"
#include "refjson.hpp"
#include "refmsgpack.hpp"

namespace vf {

struct GenInput {
  std::string bytes;
  bool msgpack = false;
  int cls = 0;  // 0 valid, 1 prefix, 2 mutated, 3 random, 4 huge-header
};

inline const char* input_class_name(int c) { static const char* n[] = {"valid", "prefix", "mutated", "random", "huge-header", "at-string-limit", "long-number-token"}; return n[c]; }

inline std::string gen_valid_json(Rng& r, int max_depth = 5) {
  GenOpt g; g.str_mode = (int)r.below(3) == 2 ? 2 : 1; g.dup_keys = r.chance(1, 4); g.max_depth = (int)r.range(0, max_depth); g.max_width = (int)r.range(0, 6);
  if (r.chance(1, 30)) g.long_str = 300;
  MVal v = r.chance(1, 30) ? gen_chain(r, (int)r.range(1, 300), (int)r.below(3)) : gen_value(r, g);
  respell_floats(v, r);
  RenderOpt ro; ro.random_ws = r.coin(); ro.escape_weight = (int)r.range(1, 5);
  std::string t = render_json(v, ro, &r);
  if (g.str_mode == 2) {
    // arbitrary bytes inside strings: make the text keep its quotes balanced by escaping quote/backslash only (done by the renderer)
  }
  return t;
}

inline std::string gen_valid_msgpack(Rng& r, int max_depth = 5) {
  GenOpt g; g.str_mode = (int)r.below(3); g.allow_binext = true; g.allow_nonfinite = true; g.wide_floats = true; g.dup_keys = r.chance(1, 4);
  g.max_depth = (int)r.range(0, max_depth); g.max_width = (int)r.range(0, 17);
  MVal v = r.chance(1, 30) ? gen_chain(r, (int)r.range(1, 300), (int)r.below(3)) : gen_value(r, g);
  MpEncOpt eo; eo.minimal = r.coin();
  return mp_encode(v, eo, &r);
}

inline void mutate_bytes(Rng& r, std::string& b, bool msgpack) {
  int n = (int)r.range(1, 4);
  for (int i = 0; i < n; i++) {
    if (b.empty()) { b += (char)r.below(256); continue; }
    size_t p = (size_t)r.below(b.size());
    switch (r.below(msgpack ? 8 : 10)) {
      case 0: b[p] = (char)r.below(256); break;                       // byte flip
      case 1: b.erase(p, (size_t)r.range(1, 4)); break;                // deletion
      case 2: b.insert(p, 1, (char)r.below(256)); break;               // insertion
      case 3: b.insert(p, 1, '\0'); break;                             // NUL insertion
      case 4: { size_t q = (size_t)r.below(b.size()); std::swap(b[p], b[q]); break; }
      case 5: { size_t len = (size_t)r.range(1, 12); b.insert(p, b.substr(p, len)); break; }   // duplication
      case 6: if (msgpack) { static const unsigned char h[] = {0xc1, 0xdb, 0xdd, 0xdf, 0xc6, 0xc9, 0xda, 0xdc, 0xde, 0xd9, 0xff, 0x9f, 0x8f, 0xbf}; b[p] = (char)r.pick(h); }
              else { static const char s[] = {'[', ']', '{', '}', ',', ':', '"', '\'', '\\', '/', '*', '-', '+', '.', 'e', 'n', 't', 'f', 'u', ' ', '0', '9'}; b[p] = r.pick(s); }
              break;
      case 7: if (msgpack) { if (p + 4 <= b.size()) for (int k = 0; k < 4; k++) b[p + (size_t)k] = (char)0xff; }   // length-field corruption
              else { // bracket flip
                for (size_t k = 0; k < b.size(); k++) { size_t q = (p + k) % b.size(); char ch = b[q]; if (ch == '[') { b[q] = '{'; break; } if (ch == '{') { b[q] = '['; break; } if (ch == ']') { b[q] = '}'; break; } if (ch == '}') { b[q] = ']'; break; } }
              }
              break;
      case 8: { // token deletion between structural characters
        size_t q = b.find_first_of(",:]}", p); if (q != std::string::npos && q > p) b.erase(p, q - p); break;
      }
      default: { static const char* frag[] = {"\\u", "\\ud800", "\\udc00\\ud800", "/*", "*/", "//", "NaN", "Infinity", "-Infinity", "nul", "tru", "1e", "-", "\"", "'", "\\", "1e999999999", "00", "[[[[[[[[[[[[", "{\"a\":"}; b.insert(p, r.pick(frag)); }
    }
  }
}

inline std::string gen_huge_header_msgpack(Rng& r) {
  std::string b;
  int depth = (int)r.range(0, 5);
  for (int i = 0; i < depth; i++) { if (r.coin()) b += (char)0x91; else { b += (char)0x81; b += (char)0xa1; b += 'k'; } }
  static const unsigned char h32[] = {0xdb, 0xc6, 0xc9, 0xdd, 0xdf};
  static const unsigned char h16[] = {0xda, 0xc5, 0xc8, 0xdc, 0xde};
  unsigned w = (unsigned)r.below(3);
  if (w == 0) { b += (char)r.pick(h32); static const uint32_t v[] = {0xffffffffu, 0x7fffffffu, 0x80000000u, 0x10000u, 0xffffu, 0x100000u}; be_put(b, r.pick(v), 4); }
  else if (w == 1) { b += (char)r.pick(h16); be_put(b, r.coin() ? 0xffff : (uint64_t)r.below(65536), 2); }
  else { b += (char)0xdd; be_put(b, 0xffffffffu, 4); b += (char)0xdf; be_put(b, 0xfffffff0u, 4); b += (char)0xdb; be_put(b, 0xffffffffu, 4); }
  size_t body = (size_t)r.below(40);
  for (size_t i = 0; i < body; i++) b += (char)r.below(256);
  return b;
}

inline GenInput gen_input(Rng& r, bool msgpack) {
  GenInput in; in.msgpack = msgpack;
  unsigned w = (unsigned)r.below(20);
  std::string valid = msgpack ? gen_valid_msgpack(r) : gen_valid_json(r);
  if (w < 6) { in.bytes = valid; in.cls = 0; }
  else if (w < 10) { in.bytes = valid.substr(0, (size_t)r.below(valid.size() + 1)); in.cls = 1; }
  else if (w < 16) { in.bytes = valid; mutate_bytes(r, in.bytes, msgpack); in.cls = 2; }
  else if (w < 19 || !msgpack) {
    size_t n = (size_t)r.below(r.chance(1, 10) ? 600 : 40);
    static const char alpha[] = "[]{}:,\"'\\/*- +.eEntfu0123456789 \t\r\nalsrINy";
    bool jsonish = !msgpack && r.coin();
    for (size_t i = 0; i < n; i++) in.bytes += jsonish ? alpha[r.below(sizeof alpha - 1)] : (char)r.below(256);
    in.cls = 3;
  } else { in.bytes = gen_huge_header_msgpack(r); in.cls = 4; }
  // JSON: number tokens around the deserializer's 63-character token buffer (55..80 characters, 62..66 most often)
  if (!msgpack && r.chance(1, 16)) {
    size_t n = r.coin() ? (size_t)r.range(62, 66) : (size_t)r.range(55, 80);
    std::string tok;
    switch (r.below(5)) {
      case 0: tok = "1." + std::string(n - 4, '0') + "e5"; break;
      case 1: tok = std::string(n, '7'); break;
      case 2: tok = "0." + std::string(n - 6, '0') + "1e80"; break;
      case 3: tok = "-" + std::string(n - 3, '9') + ".5"; break;
      default: tok = std::string(n - 1, '0') + "1"; break;
    }
    size_t p = in.bytes.find_first_of("0123456789");
    if (p != std::string::npos && r.chance(2, 3)) { size_t e = in.bytes.find_first_not_of("0123456789.eE+-", p); in.bytes.replace(p, (e == std::string::npos ? in.bytes.size() : e) - p, tok); }
    else in.bytes = r.coin() ? tok : (r.coin() ? "[" + tok + "]" : "{\"k\":" + tok + "}");
    in.cls = 6;
  }
  return in;
}

// Random filter document (as a model value): scalars, nested objects/arrays, wildcards, empty containers.
inline MVal gen_filter(Rng& r, int depth = 0) {
  unsigned w = (unsigned)r.below(12);
  if (depth >= 3) w = w % 5;
  switch (w) {
    case 0: return MVal::boolean(true);
    case 1: return MVal::boolean(false);
    case 2: return MVal::null();
    case 3: { static const int v[] = {0, 42, -1, 7}; return MVal::sint(r.pick(v)); }   // 1 is avoided: it compares equal to true (don't-care 17)
    case 4: return MVal::str(r.coin() ? "x" : "");
    case 5: case 6: {
      MVal a = MVal::arr(); int n = (int)r.below(3);
      for (int i = 0; i < n; i++) a.a.push_back(gen_filter(r, depth + 1));
      return a;
    }
    default: {
      MVal o = MVal::obj(); int n = (int)r.below(4);
      for (int i = 0; i < n; i++) {
        std::string k;
        GenOpt g;
        if (r.chance(1, 4)) k = "*"; else k = gen_key(r, g);
        if (o.find(k)) continue;
        o.o.emplace_back(k, gen_filter(r, depth + 1));
      }
      // an explicit null entry next to a "*" wildcard is ambiguous (the wildcard applies): avoid the combination
      if (o.find("*")) for (auto& kv : o.o) if (kv.second.k == MVal::Null) kv.second = MVal::boolean(false);
      {
      }
      return o;
    }
  }
}

}  // namespace vf
