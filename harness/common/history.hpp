// API histories: operation alphabet, sequential model (plain ordered trees with
// node identities for references) and a model-state-driven generator.
// Library-independent: the same (seed, index) yields the same history under
// every configuration as long as the operations succeed in the model.
#pragma once
#include <string>
#include <vector>
#include "gen_value.hpp"
#include "mval.hpp"
#include "refjson.hpp"
#include "refmsgpack.hpp"
#include "refnum.hpp"

namespace vf {

struct Step {
  bool is_key = true;
  std::string key;
  size_t index = 0;
};
using Path = std::vector<Step>;

inline std::string path_str(const Path& p) {
  std::string s;
  for (auto& st : p) s += st.is_key ? "[\"" + printable(st.key, 30) + "\"]" : "[" + std::to_string(st.index) + "]";
  return s;
}

enum class OpK : uint8_t {
  Set, ToArray, ToObject, ToVariant, AddValue, AddNew, Remove, RemoveIter, ClearValue, ClearCollection,
  Assign, AcquireRef, DropRef, DocClear, DocShrink, DocCopy, DocMove, DocSwap, DocSetDoc, DocToArray,
  DeserJson, DeserMsgPack, Probe, COUNT
};

inline const char* opk_name(OpK k) {
  static const char* n[] = {"set", "to<JsonArray>", "to<JsonObject>", "to<JsonVariant>", "add(value)", "add<T>()", "remove", "remove(iterator)",
                            "clear()", "array/object.clear()", "set(variant)", "acquire-ref", "drop-ref", "doc.clear()", "doc.shrinkToFit()",
                            "doc=copy", "doc=move", "swap(doc,doc)", "doc.set(doc)", "doc.to<JsonArray>()", "deserializeJson", "deserializeMsgPack", "probe"};
  return n[(int)k];
}

struct Target {
  int doc = 0;
  int ref = -1;   // -1: base is the document itself, else index into the reference table
  Path path;      // at most 3 proxy steps on top of the base
};

// how a string is handed to the library
enum StrKind : uint8_t { SK_STD = 0, SK_LINKED_CSTR, SK_CHARPTR, SK_CHARARRAY, SK_JSONSTRING_COPIED, SK_JSONSTRING_LINKED, SK_STRING_VIEW, SK_FLASH, SK_ARDUINO_STRING, SK_COUNT };

struct Op {
  OpK k = OpK::Probe;
  Target t, src;
  MVal val;          // Set/AddValue: scalar; Deser*: the value the text denotes (when valid)
  int newref = -1;   // AddNew/AcquireRef: where to store the resulting reference
  int aux = 0;       // AddNew: 0 variant,1 array,2 object; Remove: step in rm; DocX: other doc; RemoveIter: position
  Step rm;           // Remove
  std::string text;  // Deser*
  bool text_valid = true;
  bool text_dup_keys = false;   // the JSON text repeats a key: values are released and allocated in turn inside the one call
  uint8_t strkind = SK_STD, keykind = SK_STD;
};

inline std::string target_str(const Target& t) {
  return (t.ref >= 0 ? "ref" + std::to_string(t.ref) : "doc" + std::to_string(t.doc)) + path_str(t.path);
}
inline std::string op_str(const Op& o) {
  std::string s = std::string(opk_name(o.k)) + " " + target_str(o.t);
  switch (o.k) {
    case OpK::Set: case OpK::AddValue: s += " <- " + describe(o.val, 80) + " (strkind " + std::to_string(o.strkind) + ")"; break;
    case OpK::AddNew: s += " kind " + std::to_string(o.aux) + " -> ref" + std::to_string(o.newref); break;
    case OpK::Remove: s += o.rm.is_key ? " key \"" + printable(o.rm.key, 30) + "\"" : " index " + std::to_string(o.rm.index); break;
    case OpK::RemoveIter: s += " position " + std::to_string(o.aux); break;
    case OpK::Assign: s += " <- " + target_str(o.src); break;
    case OpK::AcquireRef: s += " -> ref" + std::to_string(o.newref); break;
    case OpK::DropRef: s = "drop ref" + std::to_string(o.newref); break;
    case OpK::DocCopy: case OpK::DocMove: case OpK::DocSwap: case OpK::DocSetDoc: s += " other=doc" + std::to_string(o.aux); break;
    case OpK::DeserJson: s += " text=" + printable(o.text, 120); break;
    case OpK::DeserMsgPack: s += " bytes=" + hexs(o.text.substr(0, 60)); break;
    default: break;
  }
  return s;
}

// ------------------------------------------------------------------ model

struct MRef { bool live = false; int doc = 0; uint32_t id = 0; };

struct Model {
  std::vector<MVal> docs;
  std::vector<MRef> refs;
  uint32_t next_id = 1;

  Model(int ndocs, int nrefs) : docs((size_t)ndocs), refs((size_t)nrefs) { for (auto& d : docs) d.id = next_id++; }

  void renumber(MVal& v) { v.id = next_id++; for (auto& e : v.a) renumber(e); for (auto& e : v.o) renumber(e.second); }
  // replace the content of a node, keeping its identity
  void put(MVal& node, MVal content) { uint32_t id = node.id; renumber(content); node = std::move(content); node.id = id; }

  static MVal* find_id(MVal& v, uint32_t id) {
    if (v.id == id) return &v;
    for (auto& e : v.a) if (MVal* r = find_id(e, id)) return r;
    for (auto& e : v.o) if (MVal* r = find_id(e.second, id)) return r;
    return nullptr;
  }
  MVal* ref_node(int r) {
    if (r < 0 || r >= (int)refs.size() || !refs[(size_t)r].live) return nullptr;
    return find_id(docs[(size_t)refs[(size_t)r].doc], refs[(size_t)r].id);
  }
  // references whose node disappeared are dead (the library handle dangles: never used again)
  void sweep() { for (size_t i = 0; i < refs.size(); i++) if (refs[i].live && !ref_node((int)i)) refs[i].live = false; }
  void kill_refs_of_doc(int d) { for (auto& r : refs) if (r.live && r.doc == d) r.live = false; }

  int target_doc(const Target& t) const { return t.ref >= 0 ? refs[(size_t)t.ref].doc : t.doc; }
  MVal* base(const Target& t) { return t.ref >= 0 ? ref_node(t.ref) : &docs[(size_t)t.doc]; }

  // non-creating navigation (reads, remove): nullptr = unbound
  static MVal* nav_read(MVal* n, const Path& p) {
    for (auto& st : p) {
      if (!n) return nullptr;
      if (st.is_key) { if (n->k != MVal::Obj) return nullptr; n = n->find(st.key); }
      else { if (n->k != MVal::Arr || st.index >= n->a.size()) return nullptr; n = &n->a[st.index]; }
    }
    return n;
  }
  // creating navigation (writes through proxies): nullptr = unbound (kind mismatch)
  MVal* nav_create(MVal* n, const Path& p) {
    for (auto& st : p) {
      if (!n) return nullptr;
      if (st.is_key) {
        if (n->k == MVal::Null) { uint32_t id = n->id; *n = MVal::obj(); n->id = id; }
        if (n->k != MVal::Obj) return nullptr;
        MVal* m = n->find(st.key);
        if (!m) { n->o.emplace_back(st.key, MVal()); m = &n->o.back().second; m->id = next_id++; }
        n = m;
      } else {
        if (n->k == MVal::Null) { uint32_t id = n->id; *n = MVal::arr(); n->id = id; }
        if (n->k != MVal::Arr) return nullptr;
        while (n->a.size() <= st.index) { n->a.emplace_back(); n->a.back().id = next_id++; }
        n = &n->a[st.index];
      }
    }
    return n;
  }
  MVal* resolve_read(const Target& t) { return nav_read(base(t), t.path); }
  MVal* resolve_create(const Target& t) { return nav_create(base(t), t.path); }
};

// What the model predicts for an operation.
struct Outcome {
  bool bound = true;        // target resolved (writes: getOrCreateData non-null)
  bool ret = true;          // boolean result of set/add (when no allocation failed and overflowed() is false)
  bool ret_known = true;
  bool newref_bound = false;
  int code = 0;             // Deser*: expected DeserializationError code (0 Ok) when text_valid; -1 = whatever
  bool resync = false;      // target content after the op is not determined by the model: re-read it from the library
};

inline Outcome model_apply(Model& m, const Op& o) {
  Outcome r;
  switch (o.k) {
    case OpK::Set: {
      MVal* n = m.resolve_create(o.t);
      if (!n) { r.bound = false; r.ret = false; break; }
      m.put(*n, o.val);
      break;
    }
    case OpK::ToArray: case OpK::ToObject: case OpK::ToVariant: {
      MVal* n = m.resolve_create(o.t);
      if (!n) { r.bound = false; break; }
      m.put(*n, o.k == OpK::ToArray ? MVal::arr() : o.k == OpK::ToObject ? MVal::obj() : MVal::null());
      if (o.newref >= 0) { m.refs[(size_t)o.newref] = MRef{true, m.target_doc(o.t), n->id}; r.newref_bound = true; }
      break;
    }
    case OpK::AddValue: {
      MVal* n = m.resolve_create(o.t);
      if (!n) { r.bound = false; r.ret = false; break; }
      if (n->k == MVal::Null) { uint32_t id = n->id; *n = MVal::arr(); n->id = id; }
      if (n->k != MVal::Arr) { r.ret = false; break; }
      MVal e = o.val; m.renumber(e); n->a.push_back(std::move(e));
      break;
    }
    case OpK::AddNew: {
      MVal* n = m.resolve_create(o.t);
      if (!n) { r.bound = false; break; }
      if (n->k == MVal::Null) { uint32_t id = n->id; *n = MVal::arr(); n->id = id; }
      if (n->k != MVal::Arr) break;  // unbound result
      MVal e = o.aux == 1 ? MVal::arr() : o.aux == 2 ? MVal::obj() : MVal::null();
      e.id = m.next_id++;
      n->a.push_back(e);
      r.newref_bound = true;
      if (o.newref >= 0) m.refs[(size_t)o.newref] = MRef{true, m.target_doc(o.t), e.id};
      break;
    }
    case OpK::Remove: {
      MVal* n = m.resolve_read(o.t);
      if (!n) { r.bound = false; break; }
      if (o.rm.is_key) {
        if (n->k == MVal::Obj) for (size_t i = 0; i < n->o.size(); i++) if (n->o[i].first == o.rm.key) { n->o.erase(n->o.begin() + (long)i); break; }
      } else if (n->k == MVal::Arr && o.rm.index < n->a.size()) n->a.erase(n->a.begin() + (long)o.rm.index);
      break;
    }
    case OpK::RemoveIter: {
      MVal* n = m.resolve_read(o.t);
      if (!n) { r.bound = false; break; }
      if (n->k == MVal::Arr && (size_t)o.aux < n->a.size()) n->a.erase(n->a.begin() + o.aux);
      else if (n->k == MVal::Obj && (size_t)o.aux < n->o.size()) n->o.erase(n->o.begin() + o.aux);
      break;
    }
    case OpK::ClearValue: {
      MVal* n = m.resolve_create(o.t);  // VariantRefBase::clear() goes through getOrCreateData
      if (!n) { r.bound = false; break; }
      m.put(*n, MVal::null());
      break;
    }
    case OpK::ClearCollection: {
      MVal* n = m.resolve_read(o.t);
      if (!n) { r.bound = false; break; }
      if (n->k == MVal::Arr) n->a.clear(); else if (n->k == MVal::Obj) n->o.clear();
      break;
    }
    case OpK::Assign: {
      MVal* s = m.resolve_read(o.src);
      MVal copy = s ? *s : MVal::null();   // evaluate the source first (value semantics)
      MVal* n = m.resolve_create(o.t);
      if (!n) { r.bound = false; r.ret = false; break; }
      m.put(*n, copy);
      break;
    }
    case OpK::AcquireRef: {
      MVal* n = m.resolve_read(o.t);
      if (n) { m.refs[(size_t)o.newref] = MRef{true, m.target_doc(o.t), n->id}; r.newref_bound = true; }
      else m.refs[(size_t)o.newref].live = false;
      break;
    }
    case OpK::DropRef: m.refs[(size_t)o.newref].live = false; break;
    case OpK::DocClear: m.kill_refs_of_doc(o.t.doc); m.put(m.docs[(size_t)o.t.doc], MVal::null()); break;
    case OpK::DocShrink: m.kill_refs_of_doc(o.t.doc); break;
    case OpK::DocToArray: m.kill_refs_of_doc(o.t.doc); m.put(m.docs[(size_t)o.t.doc], MVal::arr()); break;
    case OpK::DocCopy: case OpK::DocSetDoc: {
      MVal copy = m.docs[(size_t)o.aux];
      if (o.k == OpK::DocSetDoc && o.aux == o.t.doc) copy = MVal::null();  // never generated outside alias mode
      m.kill_refs_of_doc(o.t.doc);
      m.put(m.docs[(size_t)o.t.doc], copy);
      break;
    }
    case OpK::DocMove: {
      m.kill_refs_of_doc(o.t.doc); m.kill_refs_of_doc(o.aux);
      if (o.aux != o.t.doc) { MVal v = m.docs[(size_t)o.aux]; m.put(m.docs[(size_t)o.t.doc], v); m.put(m.docs[(size_t)o.aux], MVal::null()); }
      break;
    }
    case OpK::DocSwap: {
      m.kill_refs_of_doc(o.t.doc); m.kill_refs_of_doc(o.aux);
      std::swap(m.docs[(size_t)o.t.doc], m.docs[(size_t)o.aux]);
      break;
    }
    case OpK::DeserJson: case OpK::DeserMsgPack: {
      bool whole_doc = o.t.ref < 0 && o.t.path.empty();
      MVal* n = m.resolve_create(o.t);
      if (!n) { r.bound = false; r.code = 4 /*NoMemory*/; break; }
      if (whole_doc) m.kill_refs_of_doc(o.t.doc);
      if (o.text_valid) { m.put(*n, o.val); r.code = 0; }
      else { m.put(*n, MVal::null()); r.code = -1; r.resync = true; }
      break;
    }
    case OpK::Probe: case OpK::COUNT: break;
  }
  m.sweep();
  return r;
}

// ------------------------------------------------------------- generation

struct HistOpt {
  int ndocs = 2;
  int nrefs = 6;
  int max_path = 3;
  bool alias_assign = false;   // allow assignments where source and destination overlap / are the same value
  bool doc_ops = true;
  bool deser = true;
  bool binext = true;
  int key_pool = 5;            // few keys => heavy slot reuse
  size_t max_index_beyond = 2;
  size_t max_nodes = 120;      // keep documents small so that slots are recycled
  bool only_sized_strings = false;
  bool numeric_strings_heavy = false;  // C14: a quarter of the strings are number literals of every shape
  bool int64 = true;           // false (ARDUINOJSON_USE_LONG_LONG=0): integers stay within int32
  bool float32_only = false;   // true (ARDUINOJSON_USE_DOUBLE=0): every generated floating-point value is exactly a float, inside the normal float range
};

inline std::string hist_key(Rng& r, const HistOpt& o) {
  static const char* pool[] = {"a", "b", "", "ab", "key", "a\0b", "k2", "*"};
  size_t i = (size_t)r.below((uint64_t)std::min(o.key_pool, 8));
  if (i == 5) return std::string("a\0b", 3);
  return pool[i];
}

inline MVal hist_scalar(Rng& r, const HistOpt& o) {
  static const char* strs[] = {"", "x", "hello", "a", "hello world, this is a longer string", "42", "3.14", "-7", "1e3", "true"};
  unsigned w = (unsigned)r.below(20);
  if (o.numeric_strings_heavy && w >= 15) return MVal::str(r.coin() ? gen_int_literal(r, true) : gen_literal(r, 40, false));
  if (w < 5) return MVal::str(strs[r.below(10)]);
  if (w == 5) { std::string s = strs[r.below(10)]; s += '\0'; s += "z"; return MVal::str(s); }
  if (w == 6) return MVal::raw(gen_raw_json(r));
  if (w == 7 && o.binext) { std::string p; size_t n = (size_t)r.below(20); for (size_t i = 0; i < n; i++) p += (char)r.below(256); return r.coin() ? MVal::bin(p) : MVal::extv((int8_t)r.range(-128, 127), p); }
  GenOpt g; g.allow_float = true; g.max_str = 12; g.numeric_strings = false; g.allow_nonfinite = false; g.int64 = o.int64; g.float32_only = o.float32_only;
  return gen_scalar(r, g);
}

inline Step hist_step(Rng& r, const HistOpt& o, const MVal* at) {
  Step s;
  bool want_key = r.coin();
  if (at && at->k == MVal::Obj) want_key = !r.chance(1, 10);
  if (at && at->k == MVal::Arr) want_key = r.chance(1, 10);
  s.is_key = want_key;
  if (want_key) {
    if (at && at->k == MVal::Obj && !at->o.empty() && r.chance(2, 3)) s.key = at->o[r.below(at->o.size())].first;
    else s.key = hist_key(r, o);
  } else {
    size_t n = (at && at->k == MVal::Arr) ? at->a.size() : 0;
    s.index = (size_t)r.below(n + o.max_index_beyond + 1);
  }
  return s;
}

inline Target hist_target(Rng& r, const HistOpt& o, Model& m, int maxlen) {
  Target t;
  t.doc = (int)r.below((uint64_t)o.ndocs);
  if (r.chance(1, 3)) {
    std::vector<int> live; for (size_t i = 0; i < m.refs.size(); i++) if (m.ref_node((int)i)) live.push_back((int)i);
    if (!live.empty()) { t.ref = live[r.below(live.size())]; t.doc = m.refs[(size_t)t.ref].doc; }
  }
  int len = (int)r.below((uint64_t)maxlen + 1);
  if (t.ref < 0 && len == 0 && r.chance(2, 3)) len = 1;
  MVal* at = m.base(t);
  for (int i = 0; i < len; i++) {
    Step s = hist_step(r, o, at);
    t.path.push_back(s);
    if (at) { Path one{s}; at = Model::nav_read(at, one); }
  }
  return t;
}

// is node x inside (or equal to) the subtree of y?
inline bool in_subtree(const MVal& y, const MVal* x) {
  if (&y == x) return true;
  for (auto& e : y.a) if (in_subtree(e, x)) return true;
  for (auto& e : y.o) if (in_subtree(e.second, x)) return true;
  return false;
}

// Would dst.set(src) alias?  True when the source value is the destination, contains it (the
// destination slot - existing or about to be created - lies inside the source subtree), or is
// contained in it.
inline bool targets_overlap(Model& m, const Target& dst, const Target& src) {
  if (m.target_doc(dst) != m.target_doc(src)) return false;
  MVal* s = m.resolve_read(src);
  if (!s) return false;  // unbound source: copies null
  MVal* n = m.base(dst);
  if (!n) return false;
  if (in_subtree(*s, n)) return true;
  for (auto& st : dst.path) {
    Path one{st};
    MVal* nx = Model::nav_read(n, one);
    if (!nx) return false;  // the rest of the path is created fresh below n, and n is outside the source
    n = nx;
    if (in_subtree(*s, n)) return true;
  }
  return in_subtree(*n, s);  // destination exists entirely: the source must not live inside it
}

inline Op gen_op(Rng& r, const HistOpt& o, Model& m) {
  Op op;
  size_t total_nodes = 0; for (auto& d : m.docs) total_nodes += d.count_nodes();
  bool big = total_nodes > o.max_nodes;
  unsigned w = (unsigned)r.below(100);
  op.strkind = (uint8_t)r.below(SK_COUNT);
  op.keykind = (uint8_t)r.below(SK_COUNT);
  if (big && w < 60) w = 60 + (unsigned)r.below(15);  // prefer removals when documents grow
  if (w < 22) { op.k = OpK::Set; op.t = hist_target(r, o, m, o.max_path); op.val = hist_scalar(r, o); }
  else if (w < 30) { op.k = r.coin() ? OpK::ToArray : (r.chance(2, 3) ? OpK::ToObject : OpK::ToVariant); op.t = hist_target(r, o, m, o.max_path); if (r.coin()) op.newref = (int)r.below((uint64_t)o.nrefs); }
  else if (w < 42) { op.k = OpK::AddValue; op.t = hist_target(r, o, m, o.max_path - 1); op.val = hist_scalar(r, o); }
  else if (w < 50) { op.k = OpK::AddNew; op.t = hist_target(r, o, m, o.max_path - 1); op.aux = (int)r.below(3); if (r.chance(2, 3)) op.newref = (int)r.below((uint64_t)o.nrefs); }
  else if (w < 60) {
    op.k = OpK::Assign; op.t = hist_target(r, o, m, o.max_path); op.src = hist_target(r, o, m, o.max_path);
    if (!o.alias_assign) {
      // keep source and destination disjoint: different documents, or neither inside the other
      bool ok = false;
      for (int attempt = 0; attempt < 8 && !ok; attempt++) {
        if (attempt) op.src = hist_target(r, o, m, o.max_path);
        ok = !targets_overlap(m, op.t, op.src);
      }
      if (!ok) op.k = OpK::Probe;
    }
  }
  else if (w < 70) {
    op.k = OpK::Remove; op.t = hist_target(r, o, m, o.max_path - 1);
    MVal* n = m.resolve_read(op.t);
    op.rm = hist_step(r, o, n);
    if (n && n->k == MVal::Arr && !n->a.empty() && r.chance(3, 4)) { op.rm.is_key = false; op.rm.index = (size_t)r.below(n->a.size()); }
  }
  else if (w < 73) { op.k = OpK::RemoveIter; op.t = hist_target(r, o, m, o.max_path - 1); MVal* n = m.resolve_read(op.t); size_t sz = n ? std::max(n->a.size(), n->o.size()) : 0; op.aux = (int)r.below(sz + 1); }
  else if (w < 76) { op.k = r.coin() ? OpK::ClearValue : OpK::ClearCollection; op.t = hist_target(r, o, m, o.max_path); }
  else if (w < 82) { op.k = OpK::AcquireRef; op.t = hist_target(r, o, m, o.max_path); op.newref = (int)r.below((uint64_t)o.nrefs); }
  else if (w < 83) { op.k = OpK::DropRef; op.newref = (int)r.below((uint64_t)o.nrefs); }
  else if (w < 89 && o.doc_ops) {
    static const OpK ks[] = {OpK::DocClear, OpK::DocShrink, OpK::DocShrink, OpK::DocCopy, OpK::DocMove, OpK::DocSwap, OpK::DocSetDoc, OpK::DocToArray};
    op.k = ks[r.below(8)];
    op.t.doc = (int)r.below((uint64_t)o.ndocs);
    op.aux = (int)r.below((uint64_t)o.ndocs);
    if ((op.k == OpK::DocSetDoc || op.k == OpK::DocCopy || op.k == OpK::DocMove || op.k == OpK::DocSwap) && op.aux == op.t.doc) {
      if (o.ndocs > 1) op.aux = (op.t.doc + 1) % o.ndocs; else op.k = OpK::DocShrink;
    }
  }
  else if (w < 94 && o.deser) {
    op.k = r.coin() ? OpK::DeserJson : OpK::DeserMsgPack;
    op.t = hist_target(r, o, m, 2);
    GenOpt g; g.max_depth = 2; g.max_width = 3; g.budget = 12; g.max_str = 8; g.numeric_strings = false; g.key_nul = false;
    g.allow_float = true; g.int64 = o.int64; g.float32_only = o.float32_only;
    g.dup_keys = op.k == OpK::DeserJson && r.chance(1, 4);   // JSON texts with repeated keys: the last value wins, at the position of the first
    MVal v = gen_value(r, g);
    if (op.k == OpK::DeserJson) {
      respell_floats(v, r);
      RenderOpt ro; ro.random_ws = r.coin(); ro.escape_weight = 2;
      op.text = render_json(v, ro, &r);
      // values as the library stores them: float literal -> double value; -0 int is 0
      op.val = dedup_last_wins(v);
      op.text_dup_keys = g.dup_keys;
      if (r.chance(1, 8)) { op.text = op.text.substr(0, (size_t)r.below(op.text.size() + 1)) + (r.coin() ? "" : "]"); op.text_valid = false; }
    } else {
      MpEncOpt eo; eo.minimal = r.coin();
      op.text = mp_encode(v, eo, &r);
      op.val = v;
      if (r.chance(1, 8) && !op.text.empty()) { op.text = op.text.substr(0, (size_t)r.below(op.text.size())); op.text_valid = false; }
    }
  }
  else { op.k = OpK::Probe; op.t = hist_target(r, o, m, o.max_path); }
  return op;
}

}  // namespace vf
