// MVal: the plain ordered-tree model of a JSON/MessagePack value.
// Independent of ArduinoJson.
#pragma once
#include <math.h>
#include <stdint.h>
#include <string.h>
#include <string>
#include <utility>
#include <vector>
#include "prng.hpp"

namespace vf {

struct MVal {
  enum Kind : uint8_t { Null, Bool, Int, Float, Str, Raw, Bin, Ext, Arr, Obj };
  Kind k = Null;
  bool b = false;
  bool neg = false;      // Int: value = neg ? -(mag) : mag ; (neg && mag==0) never
  uint64_t mag = 0;
  double f = 0;          // Float
  int8_t ext = 0;        // Ext type
  uint32_t id = 0;       // node identity used by the history model (ignored by comparisons)
  std::string s;         // Str / Raw (verbatim fragment) / Bin / Ext payload
  std::vector<MVal> a;
  std::vector<std::pair<std::string, MVal>> o;

  static MVal null() { return MVal(); }
  static MVal boolean(bool v) { MVal m; m.k = Bool; m.b = v; return m; }
  static MVal uint(uint64_t v) { MVal m; m.k = Int; m.mag = v; return m; }
  static MVal sint(int64_t v) {
    MVal m; m.k = Int;
    if (v < 0) { m.neg = true; m.mag = (uint64_t)(-(v + 1)) + 1; } else m.mag = (uint64_t)v;
    return m;
  }
  static MVal flt(double v) { MVal m; m.k = Float; m.f = v; return m; }
  static MVal str(std::string v) { MVal m; m.k = Str; m.s = std::move(v); return m; }
  static MVal raw(std::string v) { MVal m; m.k = Raw; m.s = std::move(v); return m; }
  static MVal bin(std::string v) { MVal m; m.k = Bin; m.s = std::move(v); return m; }
  static MVal extv(int8_t t, std::string v) { MVal m; m.k = Ext; m.ext = t; m.s = std::move(v); return m; }
  static MVal arr() { MVal m; m.k = Arr; return m; }
  static MVal obj() { MVal m; m.k = Obj; return m; }

  bool is_container() const { return k == Arr || k == Obj; }
  bool is_number() const { return k == Int || k == Float; }
  bool fits_i64() const { return k == Int && (neg ? mag <= (1ull << 63) : mag < (1ull << 63)); }
  bool fits_u64() const { return k == Int && !neg; }
  int64_t as_i64() const { return neg ? (int64_t)(~mag + 1) : (int64_t)mag; }
  long double as_ld() const {
    if (k == Int) return neg ? -(long double)mag : (long double)mag;
    return (long double)f;
  }

  MVal* find(const std::string& key) {
    for (auto& kv : o) if (kv.first == key) return &kv.second;
    return nullptr;
  }
  const MVal* find(const std::string& key) const { return const_cast<MVal*>(this)->find(key); }

  size_t nesting() const {
    if (!is_container()) return 0;
    size_t m = 0;
    for (auto& e : a) m = std::max(m, e.nesting());
    for (auto& e : o) m = std::max(m, e.second.nesting());
    return m + 1;
  }
  // number of pool slots the library needs for this value when it sits in a
  // collection (1 per value, +1 per 64-bit number, +1 per member key)
  size_t count_nodes() const {
    size_t n = 1;
    for (auto& e : a) n += e.count_nodes();
    for (auto& e : o) n += 1 + e.second.count_nodes();
    return n;
  }
};

enum class Cmp { Exact, ByValue, Tol };

inline bool bits_equal(double a, double b) {
  if (a != a && b != b) return true;
  return memcmp(&a, &b, sizeof a) == 0;
}

// C12 tolerance for a value that went through text: relative 1e-6 (float
// accuracy) – callers that know more significant digits were given use
// tol_rel explicitly.
struct CmpOpt {
  Cmp mode = Cmp::Exact;
  double tol_rel = 1e-6;
  bool raw_as_bytes = true;
};

inline bool num_close(long double a, long double b, double rel) {
  if (a != a || b != b) return (a != a) && (b != b);
  if (a == b) return true;
  if (isinf((double)a) || isinf((double)b)) return false;
  long double d = fabsl(a - b), m = fabsl(b);
  return d <= rel * m;
}

inline bool mv_equal(const MVal& x, const MVal& y, const CmpOpt& o, std::string* why = nullptr,
                     const std::string& path = "$") {
  auto fail = [&](const char* what) {
    if (why && why->empty()) *why = path + ": " + what;
    return false;
  };
  if (x.is_number() && y.is_number() && o.mode != Cmp::Exact) {
    if (x.k == MVal::Int && y.k == MVal::Int) {
      if (x.neg != y.neg || x.mag != y.mag) return fail("integer differs");
      return true;
    }
    long double a = x.as_ld(), b = y.as_ld();
    if (o.mode == Cmp::ByValue) {
      if (a != a && b != b) return true;
      if (a == b) return true;
      return fail("number value differs");
    }
    if (!num_close(a, b, o.tol_rel) && !num_close(b, a, o.tol_rel)) return fail("number outside tolerance");
    return true;
  }
  if (x.k != y.k) return fail("kind differs");
  switch (x.k) {
    case MVal::Null: return true;
    case MVal::Bool: return x.b == y.b ? true : fail("bool differs");
    case MVal::Int: return (x.neg == y.neg && x.mag == y.mag) ? true : fail("integer differs");
    case MVal::Float: return bits_equal(x.f, y.f) ? true : fail("float bits differ");
    case MVal::Str: return x.s == y.s ? true : fail("string bytes differ");
    case MVal::Raw: return x.s == y.s ? true : fail("raw bytes differ");
    case MVal::Bin: return x.s == y.s ? true : fail("bin bytes differ");
    case MVal::Ext: return (x.ext == y.ext && x.s == y.s) ? true : fail("ext differs");
    case MVal::Arr:
      if (x.a.size() != y.a.size()) return fail("array size differs");
      for (size_t i = 0; i < x.a.size(); i++)
        if (!mv_equal(x.a[i], y.a[i], o, why, path + "[" + std::to_string(i) + "]")) return false;
      return true;
    case MVal::Obj:
      if (x.o.size() != y.o.size()) return fail("object size differs");
      for (size_t i = 0; i < x.o.size(); i++) {
        if (x.o[i].first != y.o[i].first) return fail("member key/order differs");
        if (!mv_equal(x.o[i].second, y.o[i].second, o, why, path + "." + printable(x.o[i].first, 40))) return false;
      }
      return true;
  }
  return false;
}

inline std::string int_to_string(bool neg, uint64_t mag) {
  char buf[24]; char* p = buf + sizeof buf; *--p = 0;
  do { *--p = char('0' + mag % 10); mag /= 10; } while (mag);
  if (neg) *--p = '-';
  return p;
}

// Debug rendering (not JSON; unambiguous about kinds). Used in reports/samples.
inline std::string describe(const MVal& v, size_t budget = 600) {
  std::string r;
  struct L {
    static void go(const MVal& v, std::string& r, size_t budget) {
      if (r.size() > budget) { if (r.size() < budget + 3 || r.substr(r.size() - 3) != "...") r += "..."; return; }
      char buf[64];
      switch (v.k) {
        case MVal::Null: r += "null"; break;
        case MVal::Bool: r += v.b ? "true" : "false"; break;
        case MVal::Int: r += "i:" + int_to_string(v.neg, v.mag); break;
        case MVal::Float: snprintf(buf, sizeof buf, "f:%.17g", v.f); r += buf; break;
        case MVal::Str: r += "\"" + printable(v.s, 60) + "\""; break;
        case MVal::Raw: r += "raw<" + printable(v.s, 60) + ">"; break;
        case MVal::Bin: r += "bin<" + hexs(v.s.substr(0, 24)) + (v.s.size() > 24 ? ".." : "") + ":" + std::to_string(v.s.size()) + ">"; break;
        case MVal::Ext: r += "ext" + std::to_string(v.ext) + "<" + hexs(v.s.substr(0, 24)) + ":" + std::to_string(v.s.size()) + ">"; break;
        case MVal::Arr:
          r += "[";
          for (size_t i = 0; i < v.a.size(); i++) { if (i) r += ","; go(v.a[i], r, budget); if (r.size() > budget) break; }
          r += "]"; break;
        case MVal::Obj:
          r += "{";
          for (size_t i = 0; i < v.o.size(); i++) {
            if (i) r += ",";
            r += "\"" + printable(v.o[i].first, 40) + "\":";
            go(v.o[i].second, r, budget);
            if (r.size() > budget) break;
          }
          r += "}"; break;
      }
    }
  };
  L::go(v, r, budget);
  return r;
}

// Canonical byte serialization for hashing model states.
inline void mv_hash_into(const MVal& v, uint64_t& h) {
  unsigned char k = v.k; h = fnv1a(&k, 1, h);
  switch (v.k) {
    case MVal::Null: break;
    case MVal::Bool: { unsigned char b = v.b; h = fnv1a(&b, 1, h); break; }
    case MVal::Int: { unsigned char n = v.neg; h = fnv1a(&n, 1, h); h = fnv1a(&v.mag, 8, h); break; }
    case MVal::Float: h = fnv1a(&v.f, 8, h); break;
    case MVal::Ext: h = fnv1a(&v.ext, 1, h); /* fallthrough */
    case MVal::Str: case MVal::Raw: case MVal::Bin: { uint64_t n = v.s.size(); h = fnv1a(&n, 8, h); h = fnv1a(v.s, h); break; }
    case MVal::Arr: { uint64_t n = v.a.size(); h = fnv1a(&n, 8, h); for (auto& e : v.a) mv_hash_into(e, h); break; }
    case MVal::Obj: {
      uint64_t n = v.o.size(); h = fnv1a(&n, 8, h);
      for (auto& e : v.o) { uint64_t l = e.first.size(); h = fnv1a(&l, 8, h); h = fnv1a(e.first, h); mv_hash_into(e.second, h); }
      break;
    }
  }
}
inline uint64_t mv_hash(const MVal& v) { uint64_t h = 0xcbf29ce484222325ull; mv_hash_into(v, h); return h; }

}  // namespace vf
