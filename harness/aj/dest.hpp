// Output destinations for the serializer checks (C02, C08): guarded buffers of
// every capacity, std::string, std::ostream, custom writers, Arduino String/Print.
#pragma once
#include <functional>
#include <sstream>
#include "../common/prng.hpp"
#include "aj.hpp"

namespace vf {

struct CollectWriter {
  std::string data;
  size_t write(uint8_t c) { data += (char)c; return 1; }
  size_t write(const uint8_t* s, size_t n) { data.append((const char*)s, n); return n; }
};

// accepts the first `limit` bytes, then rejects everything (returns 0 / short counts)
struct ShortWriter {
  std::string data; size_t limit;
  explicit ShortWriter(size_t l) : limit(l) {}
  size_t write(uint8_t c) { if (data.size() >= limit) return 0; data += (char)c; return 1; }
  size_t write(const uint8_t* s, size_t n) { size_t k = std::min(n, limit - std::min(limit, data.size())); data.append((const char*)s, k); return k; }
};

#ifdef VF_ARDUINO_SHIM
struct CollectPrint : public ::Print {
  std::string data;
  size_t write(uint8_t c) override { data += (char)c; return 1; }
  size_t write(const uint8_t* s, size_t n) override { data.append((const char*)s, n); return n; }
};
#endif

// Calls the (buffer, capacity) serializer with a heap block of exactly `cap`
// bytes sitting inside a canary-filled arena: ASan red zones catch adjacent
// writes, the canaries catch everything within 64 bytes on either side.
// Returns false and fills `why` when a buffer rule of C02/C08 is broken.
inline bool check_buffer(const std::function<size_t(void*, size_t)>& ser, const std::string& full, size_t cap, bool text_mode, std::string& why) {
  // (1) exactly sized block: out-of-bounds => ASan
  {
    char* b = (char*)malloc(cap ? cap : 1);
    memset(b, 0xAA, cap ? cap : 1);
    size_t n = ser(cap ? b : b, cap);
    size_t expect = std::min(cap, full.size());
    bool ok = true;
    if (n != expect) { why = "returned " + std::to_string(n) + " for capacity " + std::to_string(cap) + ", text length " + std::to_string(full.size()); ok = false; }
    else if (memcmp(b, full.data(), expect) != 0) { why = "buffer of capacity " + std::to_string(cap) + " does not hold the first " + std::to_string(expect) + " bytes of the output"; ok = false; }
    else if (text_mode && full.size() < cap && b[full.size()] != 0) { why = "no terminating NUL although length < capacity (" + std::to_string(full.size()) + " < " + std::to_string(cap) + ")"; ok = false; }
    else {
      size_t from = full.size() < cap ? full.size() + (text_mode ? 1 : 0) : cap;
      for (size_t i = from; i < cap; i++) if ((unsigned char)b[i] != 0xAA) { why = "byte " + std::to_string(i) + " beyond the output was modified (capacity " + std::to_string(cap) + ")"; ok = false; break; }
      if (cap == 0 && (unsigned char)b[0] != 0xAA) { why = "a byte was written into a buffer of capacity 0"; ok = false; }
    }
    free(b);
    if (!ok) return false;
  }
  // (2) inside an arena with canaries on both sides
  {
    const size_t G = 64;
    std::string arena(cap + 2 * G, (char)0x5C);
    size_t n = ser(&arena[G], cap);
    (void)n;
    for (size_t i = 0; i < G; i++) if ((unsigned char)arena[i] != 0x5C || (unsigned char)arena[G + cap + i] != 0x5C) { why = "a byte outside the buffer [buf, buf+" + std::to_string(cap) + ") was written"; return false; }
  }
  return true;
}

inline std::vector<size_t> capacities_for(size_t len, Rng& r) {
  std::vector<size_t> v;
  if (len <= 160) { for (size_t c = 0; c <= len + 2; c++) v.push_back(c); return v; }
  v = {0, 1, 2, len - 1, len, len + 1, len + 2};
  for (int i = 0; i < 10; i++) v.push_back((size_t)r.below(len + 3));
  return v;
}

}  // namespace vf
