// Read-only inspector of a JsonDocument's concrete state (pools, free list,
// string pool, slot lists).  Needs the friend hook in /repo
// (-DBBLANCHON_ARDUINOJSON_VERIF).  Called only at quiescent points.
#pragma once
#include <map>
#include <set>
#include <string>
#include <vector>
#include "../common/prng.hpp"
#include "aj.hpp"

struct ArduinoJsonVerifInspector {
  using RM = AJ::detail::ResourceManager;
  using VD = AJ::detail::VariantData;
  using VT = AJ::detail::VariantType;
  using SlotId = AJ::detail::SlotId;
  using StringNode = AJ::detail::StringNode;

  struct Snap {
    bool ok = true;
    std::string error;        // first broken invariant
    size_t pools = 0, pool_list_capacity = 0, usage = 0, last_pool_spare = 0;
    size_t free_slots = 0, reachable = 0, leaked = 0;
    size_t strings = 0, string_bytes = 0;
    size_t owned_users = 0;
    bool pools_on_heap = false;
    uint64_t hash = 0xcbf29ce484222325ull;
    void fail(const std::string& e) { if (ok) { ok = false; error = e; } }
  };

  enum : uint8_t { UNSEEN = 0, FREE = 1, REACH = 2 };

  struct Walk {
    const RM* rm;
    Snap* s;
    std::vector<std::vector<uint8_t>> state;  // per pool, per index
    std::map<const StringNode*, size_t> users;
    std::map<const StringNode*, bool> only_raw;
    size_t steps = 0;
  };

  static bool valid_id(const RM* rm, SlotId id, size_t& pool, size_t& idx) {
    if (id == AJ::detail::NULL_SLOT) return false;
    pool = id / ARDUINOJSON_POOL_CAPACITY; idx = id % ARDUINOJSON_POOL_CAPACITY;
    if (pool >= rm->variantPools_.count_) return false;
    return idx < rm->variantPools_.pools_[pool].usage_;
  }

  static void mix(Snap& s, const void* p, size_t n) { s.hash = vf::fnv1a(p, n, s.hash); }
  template <class T> static void mixv(Snap& s, T v) { mix(s, &v, sizeof v); }

  static bool mark(Walk& w, SlotId id, const char* what) {
    size_t p, i;
    if (!valid_id(w.rm, id, p, i)) { w.s->fail(std::string(what) + ": slot id " + std::to_string((unsigned long long)id) + " outside pool usage"); return false; }
    if (w.state[p][i] == FREE) { w.s->fail(std::string(what) + ": slot " + std::to_string((unsigned long long)id) + " is both linked and on the free list"); return false; }
    if (w.state[p][i] == REACH) { w.s->fail(std::string(what) + ": slot " + std::to_string((unsigned long long)id) + " is reachable twice (shared or cyclic)"); return false; }
    w.state[p][i] = REACH; w.s->reachable++;
    return true;
  }

  static void walk_variant(Walk& w, const VD* v, int depth) {
    if (!w.s->ok || ++w.steps > 20000000 || depth > 5000) { w.s->fail("walk does not terminate"); return; }
    Snap& s = *w.s;
    uint8_t t = (uint8_t)v->type_;
    mixv(s, t);
    switch (v->type_) {
      case VT::Null: break;
      case VT::Boolean: mixv(s, (uint8_t)v->content_.asBoolean); break;
      case VT::Int32: case VT::Uint32: mixv(s, v->content_.asUint32); break;
      case VT::Float: mixv(s, v->content_.asUint32); break;
      case VT::LinkedString: { const char* p = v->content_.asLinkedString; if (!p) { s.fail("linked string with null pointer"); return; } mix(s, p, strlen(p)); break; }
      case VT::OwnedString: case VT::RawString: {
        const StringNode* n = v->content_.asOwnedString;
        if (!n) { s.fail("owned string with null node"); return; }
        auto it = w.users.find(n);
        if (it == w.users.end()) { s.fail("value points to a string node that is not in the document's string pool"); return; }
        it->second++; s.owned_users++;
        if (v->type_ != VT::RawString) w.only_raw[n] = false;
        mixv(s, (uint64_t)n->length); mix(s, n->data, n->length);
        break;
      }
      case VT::Array: case VT::Object: {
        const AJ::detail::CollectionData& c = v->content_.asCollection;
        SlotId id = c.head_, last = AJ::detail::NULL_SLOT; size_t n = 0;
        if ((c.head_ == AJ::detail::NULL_SLOT) != (c.tail_ == AJ::detail::NULL_SLOT)) { s.fail("collection head/tail disagree about emptiness"); return; }
        while (id != AJ::detail::NULL_SLOT) {
          if (!mark(w, id, "collection list")) return;
          const VD* e = w.rm->getVariant(id);
          mixv(s, (uint32_t)id);
          if (v->type_ == VT::Object && (n % 2) == 0 && !(e->type_ == VT::LinkedString || e->type_ == VT::OwnedString)) { s.fail("object member whose key slot is not a string"); return; }
          walk_variant(w, e, depth + 1);
          if (!s.ok) return;
          last = id; id = e->next_; n++;
        }
        if (last != c.tail_) { s.fail("collection tail_ is not the last slot of the list"); return; }
        if (v->type_ == VT::Object && (n % 2)) { s.fail("object with an odd number of slots (member without value)"); return; }
        break;
      }
      default: {
#if ARDUINOJSON_USE_EXTENSIONS
        if ((uint8_t)v->type_ & (uint8_t)AJ::detail::VariantTypeBits::ExtensionBit) {
          SlotId id = v->content_.asSlotId;
          if (!mark(w, id, "extension slot")) return;
          uint64_t raw; memcpy(&raw, w.rm->getExtension(id), 8); mixv(s, raw);
          break;
        }
#endif
        s.fail("variant with unknown type tag " + std::to_string((unsigned)t));
      }
    }
  }

  // relaxed = an allocation failed since the last clear(): string nodes may have lost their user
  // (a key saved before its member slots could be allocated) - refcounts may exceed, never undercut, the users
  static Snap inspect(const AJ::JsonDocument& doc, bool relaxed = false) {
    Snap s;
    const RM* rm = &doc.resources_;
    const auto& pl = rm->variantPools_;
    s.pools = pl.count_; s.pool_list_capacity = pl.capacity_;
    s.pools_on_heap = pl.pools_ != pl.preallocatedPools_;
    if (pl.count_ > pl.capacity_) s.fail("pool count above pool-list capacity");
    if ((size_t)pl.capacity_ > (size_t)pl.maxPools && s.pools_on_heap) s.fail("pool-list capacity above maxPools (slot ids can wrap)");
    if ((size_t)pl.count_ > (size_t)pl.maxPools) s.fail("more pools than slot ids can address");
    Walk w; w.rm = rm; w.s = &s;
    w.state.resize(pl.count_);
    for (size_t i = 0; i < pl.count_; i++) {
      const auto& p = pl.pools_[i];
      if (p.usage_ > p.capacity_) s.fail("pool usage above its capacity");
      if ((size_t)p.capacity_ > (size_t)ARDUINOJSON_POOL_CAPACITY) s.fail("pool capacity above ARDUINOJSON_POOL_CAPACITY");
      if (i * (size_t)ARDUINOJSON_POOL_CAPACITY + p.usage_ > (size_t)AJ::detail::NULL_SLOT) s.fail("a slot id reaches NULL_SLOT");
      s.usage += p.usage_;
      w.state[i].assign(p.usage_, UNSEEN);
      mixv(s, (uint32_t)p.usage_);
      if (i + 1 == pl.count_) s.last_pool_spare = p.capacity_ - p.usage_;
    }
    if (!s.ok) return s;
    // free list
    {
      SlotId id = pl.freeList_; size_t guard = 0;
      while (id != AJ::detail::NULL_SLOT) {
        size_t p, i;
        if (!valid_id(rm, id, p, i)) { s.fail("free list contains a slot id outside pool usage"); return s; }
        if (w.state[p][i] == FREE) { s.fail("free list is cyclic"); return s; }
        w.state[p][i] = FREE; s.free_slots++;
        mixv(s, (uint32_t)id);
        SlotId next; memcpy(&next, pl.pools_[p].slots_ + i, sizeof next);
        id = next;
        if (++guard > s.usage) { s.fail("free list longer than pool usage"); return s; }
      }
    }
    // string pool
    {
      size_t guard = 0;
      for (const StringNode* n = rm->stringPool_.strings_; n; n = n->next) {
        if (w.users.count(n)) { s.fail("string list is cyclic"); return s; }
        w.users[n] = 0; w.only_raw[n] = true;
        s.strings++; s.string_bytes += AJ::detail::sizeofString(n->length);
        if (++guard > 50000000) { s.fail("string list does not end"); return s; }
      }
    }
    walk_variant(w, &doc.data_, 0);
    if (!s.ok) return s;
    if (s.reachable + s.free_slots > s.usage) s.fail("more linked+free slots than pool usage");
    s.leaked = s.usage - s.reachable - s.free_slots;
    // reference counts
    std::set<std::string> contents;
    for (auto& kv : w.users) {
      const StringNode* n = kv.first;
      if (relaxed ? (size_t)n->references < kv.second : (size_t)n->references != kv.second) { s.fail("string node \"" + vf::printable(std::string(n->data, n->length), 40) + "\" has references=" + std::to_string((unsigned long long)n->references) + " but " + std::to_string(kv.second) + " values use it"); break; }
      if (kv.second == 0 && !relaxed) { s.fail("string node survives its last user"); break; }
      if (!w.only_raw[n]) {
        if (n->data[n->length] != 0) { s.fail("string node used by a string value is not NUL-terminated at its length"); break; }
        std::string c(n->data, n->length);
        if (!contents.insert(c).second) { s.fail("equal copied strings stored twice: \"" + vf::printable(c, 40) + "\""); break; }
      }
    }
    return s;
  }

  static bool overflowed(const AJ::JsonDocument& d) { return d.resources_.overflowed_; }
};

namespace vf {
using Inspector = ::ArduinoJsonVerifInspector;
}
