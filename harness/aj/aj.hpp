// Single include point for the library under test + harness helpers that need it.
#pragma once

#ifdef VF_ARDUINO_SHIM
// all Arduino-flavoured input/output kinds on, through /verif/harness/shim
#  define ARDUINOJSON_ENABLE_ARDUINO_STRING 1
#  define ARDUINOJSON_ENABLE_ARDUINO_STREAM 1
#  define ARDUINOJSON_ENABLE_ARDUINO_PRINT 1
#  define ARDUINOJSON_ENABLE_PROGMEM 1
#  define ARDUINOJSON_ENABLE_STD_STRING 1
#  define ARDUINOJSON_ENABLE_STD_STREAM 1
#  define ARDUINOJSON_ENABLE_STRING_VIEW 1
#  include <Arduino.h>
#endif

#include <ArduinoJson.h>

#include <sstream>
#include <string>
#include <string_view>
#include <unordered_map>
#include <vector>

namespace AJ = ArduinoJson;

namespace vf {

inline const char* err_name(AJ::DeserializationError e) {
  switch (e.code()) {
    case AJ::DeserializationError::Ok: return "Ok";
    case AJ::DeserializationError::EmptyInput: return "EmptyInput";
    case AJ::DeserializationError::IncompleteInput: return "IncompleteInput";
    case AJ::DeserializationError::InvalidInput: return "InvalidInput";
    case AJ::DeserializationError::NoMemory: return "NoMemory";
    case AJ::DeserializationError::TooDeep: return "TooDeep";
  }
  return "OUT-OF-ENUM";
}
inline bool err_in_enum(AJ::DeserializationError e) {
  int c = (int)e.code();
  return c >= 0 && c <= 5;
}

#if ARDUINOJSON_USE_DOUBLE
static const bool kUseDouble = true;
#else
static const bool kUseDouble = false;
#endif

static const size_t kMaxStringLength = ((size_t)1 << (8 * ARDUINOJSON_STRING_LENGTH_SIZE)) - 1;
static const size_t kMaxSlots = (size_t)((1ull << (8 * ARDUINOJSON_SLOT_ID_SIZE)) - 1);

}  // namespace vf
