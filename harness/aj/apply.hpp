// Executes history operations (common/history.hpp) against real JsonDocuments
// and compares every observable with the model.
#pragma once
#include <deque>
#include <functional>
#include <memory>
#include "../common/history.hpp"
#include "extract.hpp"
#include "inspector.hpp"
#include "spy_alloc.hpp"

namespace vf {

// Stable storage for strings the library keeps by address (linked).
struct StringArena {
  std::deque<std::unique_ptr<char[]>> blocks;
  const char* keep(const std::string& s) {
    std::unique_ptr<char[]> b(new char[s.size() + 1]);  // exactly sized: ASan red zone right after the NUL
    memcpy(b.get(), s.c_str(), s.size() + 1);
    blocks.push_back(std::move(b));
    return blocks.back().get();
  }
};

// Hand a string value to `dst.set(...)` as the requested source kind.  Copied
// kinds use a scratch buffer that is scribbled over and freed right after the
// call, so a late read by the library is caught (ASan / wrong bytes).
template <class V>
bool set_string_kind(V&& dst, const std::string& s, uint8_t kind, StringArena& arena) {
  bool has_nul = s.find('\0') != std::string::npos;
  switch (kind) {
    case SK_LINKED_CSTR:
      if (has_nul) break;
      return dst.set((const char*)arena.keep(s));
    case SK_CHARPTR: {
      if (has_nul) break;
      char* p = (char*)malloc(s.size() + 1); memcpy(p, s.c_str(), s.size() + 1);
      bool r = dst.set((char*)p);
      memset(p, '#', s.size()); free(p);
      return r;
    }
    case SK_CHARARRAY: {
      if (has_nul || s.size() >= 48) break;
      char buf[48]; memset(buf, 0, sizeof buf); memcpy(buf, s.c_str(), s.size());
      bool r = dst.set(buf);
      memset(buf, '#', sizeof buf);
      return r;
    }
    case SK_JSONSTRING_COPIED: {
      char* p = (char*)malloc(s.size() + 1); memcpy(p, s.c_str(), s.size() + 1);
      bool r = dst.set(AJ::JsonString(p, s.size(), AJ::JsonString::Copied));
      memset(p, '#', s.size() + 1); free(p);
      return r;
    }
    case SK_JSONSTRING_LINKED:
      // a JsonString declared Linked is kept by address like a const char*: its size is not stored, so (like every
      // zero-terminated kind) it cannot carry an embedded NUL - those strings go through std::string
      if (has_nul) break;
      return dst.set(AJ::JsonString(arena.keep(s), s.size(), AJ::JsonString::Linked));
    case SK_STRING_VIEW: {
      char* p = (char*)malloc(s.size() ? s.size() : 1); memcpy(p, s.data(), s.size());
      bool r = dst.set(std::string_view(p, s.size()));
      memset(p, '#', s.size()); free(p);
      return r;
    }
#ifdef VF_ARDUINO_SHIM
    case SK_FLASH: {
      if (has_nul) break;
      char* p = (char*)malloc(s.size() + 1); memcpy(p, s.c_str(), s.size() + 1);
      bool r = dst.set(reinterpret_cast<const __FlashStringHelper*>(vf_to_flash(p)));
      memset(p, '#', s.size() + 1); free(p);
      return r;
    }
    case SK_ARDUINO_STRING: {
      if (has_nul) break;
      ::String* as = new ::String(s.c_str());
      bool r = dst.set(*as);
      *as = "################"; delete as;
      return r;
    }
#endif
    default: break;
  }
  std::string* tmp = new std::string(s);
  bool r = dst.set(*tmp);
  for (auto& ch : *tmp) ch = '#';
  delete tmp;
  return r;
}

// routes set(...) calls to add(...), so that the same source-kind helpers serve both
template <class T>
struct AddAdapter {
  T& t;
  template <class U> bool set(const U& x) { return t.add(x); }
  template <class U> bool set(U* x) { return t.add(x); }
};

template <class V>
bool set_scalar(V&& dst, const MVal& m, uint8_t strkind, StringArena& arena, Rng* r) {
  if (m.k == MVal::Str) return set_string_kind(dst, m.s, strkind, arena);
  if (m.k == MVal::Raw) {
    if (strkind & 1) return dst.set(AJ::serialized(m.s));
    return dst.set(AJ::serialized(m.s.data(), m.s.size()));
  }
  BuildOpt bo; bo.rng = r;
  // scalars through the typed setters (build handles Null/Bool/Int/Float/Bin/Ext)
  switch (m.k) {
    case MVal::Null: return dst.set(nullptr);
    case MVal::Bool: return dst.set(m.b);
    case MVal::Bin: return dst.set(AJ::MsgPackBinary(m.s.data(), m.s.size()));
    case MVal::Ext: return dst.set(AJ::MsgPackExtension(m.ext, m.s.data(), m.s.size()));
    case MVal::Float: { float f = (float)m.f; if ((double)f == m.f && r && r->coin()) return dst.set(f); return dst.set(m.f); }
    case MVal::Int:
      if (m.neg) { int64_t v = m.as_i64(); if (r && v >= INT32_MIN && r->coin()) return dst.set((int)v); return dst.set((long long)v); }
      if (m.mag <= (uint64_t)INT64_MAX && (!r || r->coin())) { if (r && m.mag <= INT32_MAX && r->coin()) return dst.set((int)m.mag); return dst.set((int64_t)m.mag); }
      if (r && m.mag <= UINT32_MAX && r->coin()) return dst.set((unsigned)m.mag);
      return dst.set((uint64_t)m.mag);
    default: return false;
  }
}

// Values as this build stores them (32-bit JsonFloat rounds every double): applied to each generated operation so that
// the library-independent generator and model stay exact.
inline void adapt_op(Op& o) {
  if (!kUseDouble && (o.k == OpK::Set || o.k == OpK::AddValue)) o.val = stored_form(o.val);
}

// ----------------------------------------------------------- target access

// Calls f(x) with x = base navigated through the proxy steps (lazy proxies:
// nothing is created unless f writes).  Depth bounded at compile time.
template <int D, class B, class F>
void with_steps(B&& base, const Step* st, int n, bool last_key_cstr, StringArena& arena, F&& f) {
  if constexpr (D == 0) { f(base); }
  else {
    if (n == 0) { f(base); return; }
    if (st->is_key) {
      if (n == 1 && last_key_cstr && st->key.find('\0') == std::string::npos) {
        const char* k = arena.keep(st->key);
        with_steps<0>(base[k], st + 1, 0, false, arena, f);
      } else with_steps<D - 1>(base[st->key], st + 1, n - 1, last_key_cstr, arena, f);
    } else with_steps<D - 1>(base[st->index], st + 1, n - 1, last_key_cstr, arena, f);
  }
}

struct Report {
  std::function<void(const std::string& clause, const std::string& detail)> violation;
};

struct AjExec {
  std::vector<std::unique_ptr<SpyAllocator>> allocs;
  std::vector<std::unique_ptr<AJ::JsonDocument>> docs;
  std::vector<AJ::JsonVariant> refs;
  StringArena arena;
  Rng* rng = nullptr;
  bool stop = false;           // set when the case cannot continue (capacity reached)
  std::string stop_reason;
  uint64_t steps = 0;

  // what the last operation reported (C05 judges these under injected failures)
  bool last_has_ret = false, last_ret = true, last_has_bound = false, last_bound = true;
  int last_code = -1;
  bool exact_kinds = false;   // C14: hand every string over as exactly the requested source kind (no shortcuts through other kinds)

  AjExec(int ndocs, int nrefs, bool shared_allocator = false) {
    if (shared_allocator) allocs.emplace_back(new SpyAllocator);
    for (int i = 0; i < ndocs; i++) {
      if (!shared_allocator) allocs.emplace_back(new SpyAllocator);
      docs.emplace_back(new AJ::JsonDocument(allocs.back().get()));
    }
    refs.resize((size_t)nrefs);
  }
  ~AjExec() { docs.clear(); }

  template <class F>
  void at(const Target& t, bool key_cstr, F&& f) {
    int n = (int)t.path.size();
    if (t.ref >= 0) with_steps<3>(refs[(size_t)t.ref], t.path.data(), n, key_cstr, arena, f);
    else with_steps<3>(*docs[(size_t)t.doc], t.path.data(), n, key_cstr, arena, f);
  }

  uint64_t alloc_calls() const { uint64_t n = 0; for (auto& a : allocs) n += a->calls(); return n; }

  // non-creating resolution (reads, remove, clear of collections): what the proxy's getData() designates
  AJ::JsonVariant resolve_read(const Target& t) {
    AJ::JsonVariant jv;
    at(t, false, [&](auto&& v) { jv = v.template as<AJ::JsonVariant>(); });
    return jv;
  }

  // set(value) through the proxy.  A few C++ types go through the proxy's own set<T>; the rest
  // goes through proxy.to<JsonVariant>() (same getOrCreateData path, then clear) followed by the
  // typed JsonVariant::set<T> — same final state, far fewer template instantiations.
  bool do_set(const Target& t, bool kc, const MVal& val, uint8_t strkind, bool& bound) {
    bool ret = false; bound = true;
    unsigned direct = strkind % 4;
    if (exact_kinds && val.k == MVal::Str) direct = 99;
    if (val.k == MVal::Int && !val.neg && val.mag <= 1000000 && direct == 0) { at(t, kc, [&](auto&& v) { ret = v.set((int)val.mag); }); return ret; }
    if (val.k == MVal::Str && direct == 1) { at(t, kc, [&](auto&& v) { ret = v.set(val.s); }); return ret; }
    if (val.k == MVal::Str && direct == 2 && val.s.find('\0') == std::string::npos) { const char* p = arena.keep(val.s); at(t, kc, [&](auto&& v) { ret = v.set(p); }); return ret; }
    if (val.k == MVal::Bool && direct == 3) { at(t, kc, [&](auto&& v) { ret = v.set(val.b); }); return ret; }
    // the typed set() itself must release whatever the target holds: go through the existing value when there is one
    // (to<JsonVariant>() would clear it first), create it otherwise
    AJ::JsonVariant jv;
    at(t, kc, [&](auto&& v) { jv = v.template as<AJ::JsonVariant>(); if (jv.isUnbound() || steps % 4 == 0) jv = v.template to<AJ::JsonVariant>(); });
    if (jv.isUnbound()) { bound = false; return false; }
    return set_scalar(jv, val, strkind, arena, rng);
  }

  bool do_add(const Target& t, bool kc, const MVal& val, uint8_t strkind) {
    bool ret = false;
    unsigned direct = strkind % 4;
    if (exact_kinds && val.k == MVal::Str) direct = 99;
    if (val.k == MVal::Int && !val.neg && val.mag <= 1000000 && direct == 0) { at(t, kc, [&](auto&& v) { ret = v.add((int)val.mag); }); return ret; }
    if (val.k == MVal::Str && direct == 1) { at(t, kc, [&](auto&& v) { ret = v.add(val.s); }); return ret; }
    if (val.k == MVal::Str && direct == 2 && val.s.find('\0') == std::string::npos) { const char* p = arena.keep(val.s); at(t, kc, [&](auto&& v) { ret = v.add(p); }); return ret; }
    AJ::JsonVariant jv;
    if (direct == 3) {
      // creating path resolved by the proxy, then JsonArray::add(T) / JsonVariant::add(T)
      at(t, kc, [&](auto&& v) { jv = v.template add<AJ::JsonVariant>(); });
      if (jv.isUnbound()) return false;
      return set_scalar(jv, val, strkind, arena, rng);
    }
    at(t, kc, [&](auto&& v) { jv = v.template add<AJ::JsonVariant>(); });
    if (jv.isUnbound()) return false;
    return set_scalar(jv, val, strkind, arena, rng);
  }

  void apply(const Op& o, const Outcome& exp, Model& model, Report& rep) {
    steps++;
    last_has_ret = last_has_bound = false; last_ret = last_bound = true; last_code = -1;
    bool kc = (o.keykind & 1) != 0;
    auto ovf = [&]() { return docs[(size_t)model.target_doc(o.t)]->overflowed(); };
    switch (o.k) {
      case OpK::Set: {
        bool bound = true;
        bool ret = do_set(o.t, kc, o.val, o.strkind, bound);
        last_has_ret = true; last_ret = ret;
        // don't-care 15: the boolean result of a write through an unbound reference is not judged
        if (exp.bound && !ovf() && ret != exp.ret) rep.violation("return-value", std::string("set() returned ") + (ret ? "true" : "false") + ", model predicts " + (exp.ret ? "true" : "false"));
        break;
      }
      case OpK::ToArray: case OpK::ToObject: case OpK::ToVariant: {
        bool bound = false; AJ::JsonVariant nv;
        if (o.k == OpK::ToArray) at(o.t, kc, [&](auto&& v) { AJ::JsonArray a = v.template to<AJ::JsonArray>(); bound = !a.isNull(); nv = a; });
        else if (o.k == OpK::ToObject) at(o.t, kc, [&](auto&& v) { AJ::JsonObject ob = v.template to<AJ::JsonObject>(); bound = !ob.isNull(); nv = ob; });
        else at(o.t, kc, [&](auto&& v) { nv = v.template to<AJ::JsonVariant>(); bound = !nv.isUnbound(); });
        last_has_bound = true; last_bound = bound;
        if (bound != exp.bound && !ovf()) rep.violation("return-value", std::string("to<T>() returned a ") + (bound ? "bound" : "unbound") + " reference, model predicts the opposite");
        if (o.newref >= 0 && exp.newref_bound) refs[(size_t)o.newref] = nv;
        break;
      }
      case OpK::AddValue: {
        bool ret = do_add(o.t, kc, o.val, o.strkind);
        last_has_ret = true; last_ret = ret;
        if (exp.bound && !ovf() && ret != exp.ret) rep.violation("return-value", std::string("add(value) returned ") + (ret ? "true" : "false") + ", model predicts " + (exp.ret ? "true" : "false"));
        break;
      }
      case OpK::AddNew: {
        AJ::JsonVariant nv; bool bound = false;
        if (o.aux == 1) at(o.t, kc, [&](auto&& v) { AJ::JsonArray a = v.template add<AJ::JsonArray>(); bound = !a.isNull(); nv = a; });
        else if (o.aux == 2) at(o.t, kc, [&](auto&& v) { AJ::JsonObject ob = v.template add<AJ::JsonObject>(); bound = !ob.isNull(); nv = ob; });
        else at(o.t, kc, [&](auto&& v) { nv = v.template add<AJ::JsonVariant>(); bound = !nv.isUnbound(); });
        last_has_bound = true; last_bound = bound;
        if (bound != exp.newref_bound && !ovf()) rep.violation("return-value", std::string("add<T>() returned a ") + (bound ? "bound" : "unbound") + " reference, model predicts the opposite");
        if (o.newref >= 0 && exp.newref_bound && bound) refs[(size_t)o.newref] = nv;
        break;
      }
      case OpK::Remove: {
        AJ::JsonVariant v = resolve_read(o.t);
        unsigned how = o.strkind % 3;
        if (o.rm.is_key) {
          if (how == 0 && v.is<AJ::JsonObject>()) {
            AJ::JsonObject ob = v.as<AJ::JsonObject>();
            if (kc && o.rm.key.find('\0') == std::string::npos) ob.remove((const char*)o.rm.key.c_str()); else ob.remove(o.rm.key);
          } else if (kc && o.rm.key.find('\0') == std::string::npos) v.remove((const char*)o.rm.key.c_str());
          else v.remove(o.rm.key);
        } else {
          if (how == 0 && v.is<AJ::JsonArray>()) v.as<AJ::JsonArray>().remove(o.rm.index);
          else if (how == 1 && o.t.ref < 0 && o.t.path.empty()) docs[(size_t)o.t.doc]->remove(o.rm.index);
          else v.remove(o.rm.index);
        }
        break;
      }
      case OpK::RemoveIter: {
        AJ::JsonVariant jv = resolve_read(o.t);
        if (jv.is<AJ::JsonArray>()) {
          AJ::JsonArray a = jv.as<AJ::JsonArray>(); int i = 0;
          for (auto it = a.begin(); it != a.end(); ++it, ++i) if (i == o.aux) { a.remove(it); break; }
        } else if (jv.is<AJ::JsonObject>()) {
          AJ::JsonObject ob = jv.as<AJ::JsonObject>(); int i = 0;
          for (auto it = ob.begin(); it != ob.end(); ++it, ++i) if (i == o.aux) { ob.remove(it); break; }
        }
        break;
      }
      case OpK::ClearValue: at(o.t, kc, [&](auto&& v) { v.clear(); }); break;
      case OpK::ClearCollection: {
        AJ::JsonVariant jv = resolve_read(o.t);
        if (jv.is<AJ::JsonArray>()) jv.as<AJ::JsonArray>().clear();
        else if (jv.is<AJ::JsonObject>()) jv.as<AJ::JsonObject>().clear();
        break;
      }
      case OpK::Assign: {
        AJ::JsonVariant sv = resolve_read(o.src);
        AJ::JsonVariantConst src = sv;
        bool ret = false;
        unsigned how = (unsigned)(o.strkind % 3);
        if (how == 0) at(o.t, kc, [&](auto&& v) { ret = v.set(src); });
        else if (how == 1) at(o.t, kc, [&](auto&& v) { if constexpr (std::is_same<std::decay_t<decltype(v)>, AJ::JsonVariant>::value) v.set(src); else v = src; ret = true; });
        else at(o.t, kc, [&](auto&& v) { ret = v.set(sv); });
        if (how != 1) { last_has_ret = true; last_ret = ret; }
        if (exp.bound && how != 1 && !ovf() && ret != exp.ret) rep.violation("return-value", std::string("set(variant) returned ") + (ret ? "true" : "false") + ", model predicts " + (exp.ret ? "true" : "false"));
        break;
      }
      case OpK::AcquireRef: {
        AJ::JsonVariant nv = resolve_read(o.t);
        if (nv.isUnbound() == exp.newref_bound) rep.violation("reference-binding", std::string("navigating ") + target_str(o.t) + " gives a " + (nv.isUnbound() ? "unbound" : "bound") + " reference, model predicts the opposite");
        refs[(size_t)o.newref] = nv;
        break;
      }
      case OpK::DropRef: refs[(size_t)o.newref] = AJ::JsonVariant(); break;
      case OpK::DocClear: docs[(size_t)o.t.doc]->clear(); break;
      case OpK::DocShrink: docs[(size_t)o.t.doc]->shrinkToFit(); break;
      case OpK::DocToArray: docs[(size_t)o.t.doc]->to<AJ::JsonArray>(); break;
      case OpK::DocCopy: {
        if (o.strkind & 1) *docs[(size_t)o.t.doc] = *docs[(size_t)o.aux];
        else { AJ::JsonDocument tmp(*docs[(size_t)o.aux]); swap(*docs[(size_t)o.t.doc], tmp); }
        break;
      }
      case OpK::DocMove:
        if (o.aux != o.t.doc) *docs[(size_t)o.t.doc] = std::move(*docs[(size_t)o.aux]);
        break;
      case OpK::DocSwap: swap(*docs[(size_t)o.t.doc], *docs[(size_t)o.aux]); break;
      case OpK::DocSetDoc: docs[(size_t)o.t.doc]->set(*docs[(size_t)o.aux]); break;
      case OpK::DeserJson: case OpK::DeserMsgPack: {
        AJ::DeserializationError err;
        // exactly sized input block
        char* in = (char*)malloc(o.text.size() ? o.text.size() : 1); memcpy(in, o.text.data(), o.text.size());
        if (o.k == OpK::DeserJson) at(o.t, kc, [&](auto&& v) { err = AJ::deserializeJson(v, (const char*)in, o.text.size()); });
        else at(o.t, kc, [&](auto&& v) { err = AJ::deserializeMsgPack(v, (const char*)in, o.text.size()); });
        free(in);
        last_code = (int)err.code();
        if (!err_in_enum(err)) rep.violation("code-out-of-enum", "deserialize returned a value outside the documented codes");
        if (exp.code >= 0 && (int)err.code() != exp.code && !ovf())
          rep.violation("deserialize-code", std::string("returned ") + err_name(err) + ", model predicts code " + std::to_string(exp.code));
        break;
      }
      case OpK::Probe: case OpK::COUNT: break;
    }
  }
};

// ------------------------------------------------------------ observation

// Compare the observables of one value with the model node (nullptr = unbound).
inline void observe_value(AJ::JsonVariantConst v, const MVal* m, const std::string& where, Report& rep) {
  auto bad = [&](const std::string& what) { rep.violation("observable", where + ": " + what); };
  if (v.isUnbound() != (m == nullptr)) { bad(std::string("isUnbound() is ") + (v.isUnbound() ? "true" : "false")); return; }
  MVal nul; if (!m) m = &nul;
  if (v.isNull() != (m->k == MVal::Null)) bad("isNull() disagrees");
  size_t sz = m->k == MVal::Arr ? m->a.size() : m->k == MVal::Obj ? m->o.size() : 0;
  if (v.size() != sz) bad("size() = " + std::to_string(v.size()) + ", model " + std::to_string(sz));
  if (v.nesting() != m->nesting()) bad("nesting() = " + std::to_string(v.nesting()) + ", model " + std::to_string(m->nesting()));
  bool isnum = m->is_number();
  if (v.is<bool>() != (m->k == MVal::Bool)) bad("is<bool>() disagrees");
  if (v.is<AJ::JsonArrayConst>() != (m->k == MVal::Arr)) bad("is<JsonArrayConst>() disagrees");
  if (v.is<AJ::JsonObjectConst>() != (m->k == MVal::Obj)) bad("is<JsonObjectConst>() disagrees");
  if (v.is<const char*>() != (m->k == MVal::Str)) bad("is<const char*>() disagrees");
  if (v.is<AJ::JsonString>() != (m->k == MVal::Str)) bad("is<JsonString>() disagrees");
  if (v.is<std::string>() != (m->k == MVal::Str)) bad("is<std::string>() disagrees");
  if (v.is<double>() != isnum) bad("is<double>() disagrees");
  if (v.is<float>() != isnum) bad("is<float>() disagrees");
  if (v.is<int64_t>() != m->fits_i64()) bad("is<int64_t>() disagrees");
  if (v.is<uint64_t>() != m->fits_u64()) bad("is<uint64_t>() disagrees");
  bool fits_i32 = m->k == MVal::Int && (m->neg ? m->mag <= 0x80000000ull : m->mag <= 0x7fffffffull);
  bool fits_u8 = m->k == MVal::Int && !m->neg && m->mag <= 255;
  if (v.is<int>() != fits_i32) bad("is<int>() disagrees");
  if (v.is<unsigned char>() != fits_u8) bad("is<unsigned char>() disagrees");
  if (v.is<AJ::MsgPackBinary>() != (m->k == MVal::Bin)) bad("is<MsgPackBinary>() disagrees");
  // as<T>()
  bool eb = m->k == MVal::Bool ? m->b : m->k == MVal::Int ? m->mag != 0 : m->k == MVal::Float ? m->f != 0 : m->k != MVal::Null;
  if (v.as<bool>() != eb) bad("as<bool>() disagrees");
  if (m->k == MVal::Int) {
    if (v.as<int64_t>() != (m->fits_i64() ? m->as_i64() : 0)) bad("as<int64_t>() = " + std::to_string(v.as<int64_t>()));
    if (v.as<uint64_t>() != (m->fits_u64() ? m->mag : 0)) bad("as<uint64_t>() = " + std::to_string(v.as<uint64_t>()));
    if (v.as<int>() != (fits_i32 ? (int)m->as_i64() : 0)) bad("as<int>() = " + std::to_string(v.as<int>()));
    if ((v | (int64_t)-77) != (m->fits_i64() ? m->as_i64() : -77)) bad("operator| default for int64_t disagrees");
  }
  if (m->k == MVal::Float && m->f == m->f) { if (v.as<double>() != (kUseDouble ? m->f : (double)(float)m->f)) bad("as<double>() disagrees"); }
  if (m->k == MVal::Str) {
    AJ::JsonString js = v.as<AJ::JsonString>();
    if (std::string(js.c_str(), js.size()) != m->s) bad("as<JsonString>() bytes differ");
    if (v.as<std::string>() != m->s) bad("as<std::string>() differs");
    const char* p = v.as<const char*>();
    if (!p || p[js.size()] != 0) bad("as<const char*>() not terminated at size()");
    if (strcmp(v | "dflt", m->s.c_str()) != 0) bad("operator| default for const char* disagrees");
  } else {
    if (v.as<const char*>() != nullptr) bad("as<const char*>() non-null for a non-string");
    if (strcmp(v | "dflt", "dflt") != 0) bad("operator| default ignored for a non-string");
  }
  if (m->k == MVal::Obj) {
    for (size_t i = 0; i < m->o.size() && i < 6; i++) {
      const std::string& k = m->o[i].first;
      const MVal* first = m->find(k);
      CmpOpt co; std::string why;
      MVal got = extract(v[k]);
      if (!mv_equal(*first, got, co, &why)) bad("lookup by key \"" + printable(k, 30) + "\": " + why);
      if (k.find('\0') == std::string::npos) { MVal g2 = extract(v[(const char*)k.c_str()]); if (!mv_equal(*first, g2, co, &why)) bad("lookup by const char* key: " + why); }
    }
    if (!v["\x01no-such-key"].isUnbound()) bad("lookup of an absent key is bound");
    if (!v[0].isUnbound()) bad("index lookup on an object is bound");
  } else if (m->k == MVal::Arr) {
    for (size_t i = 0; i < m->a.size() && i < 6; i++) { CmpOpt co; std::string why; MVal got = extract(v[i]); if (!mv_equal(m->a[i], got, co, &why)) bad("lookup by index " + std::to_string(i) + ": " + why); }
    if (!v[m->a.size()].isUnbound()) bad("lookup past the end is bound");
    if (!v["a"].isUnbound()) bad("key lookup on an array is bound");
  } else {
    if (!v["a"].isUnbound() || !v[0].isUnbound()) bad("subscript on a scalar is bound");
  }
}

}  // namespace vf
