// Every input kind deserializeJson / deserializeMsgPack accept, each fed from
// its own exactly sized heap copy of the bytes (ASan red zones at both ends).
#pragma once
#include <istream>
#include <streambuf>
#include "aj.hpp"

namespace vf {

enum InKind : int {
  IN_CSTR = 0,        // const char*, zero-terminated
  IN_PTR_SIZE,        // const char* + size
  IN_STD_STRING,
  IN_STRING_VIEW,
  IN_ISTREAM,         // std::istream over a chunking streambuf
  IN_CUSTOM_READER,   // user class with read()/readBytes()
  IN_CHAR_PTR,        // char* (non-const), zero-terminated
  IN_UCHAR_PTR_SIZE,  // const unsigned char* + size
  IN_VARIANT,         // a variant holding a (copied) string
  IN_FLASH,           // const __FlashStringHelper*, zero-terminated   (shim)
  IN_FLASH_SIZE,      // const __FlashStringHelper* + size              (shim)
  IN_ARDUINO_STRING,  //                                                (shim)
  IN_ARDUINO_STREAM,  //                                                (shim)
  IN_COUNT
};

inline const char* inkind_name(int k) {
  static const char* n[] = {"const char*", "const char*+size", "std::string", "string_view", "std::istream", "custom reader", "char*", "const unsigned char*+size",
                            "variant holding a string", "flash pointer", "flash pointer+size", "Arduino String", "Arduino Stream"};
  return n[k];
}
inline bool inkind_zero_terminated(int k) { return k == IN_CSTR || k == IN_CHAR_PTR || k == IN_VARIANT || k == IN_FLASH; }   // (an Arduino String is read through its length(): a bounded kind)
inline bool inkind_needs_shim(int k) { return k >= IN_FLASH; }

struct ReadStats {
  size_t delivered = 0;        // bytes handed to the library (counting kinds only)
  size_t reads_after_end = 0;  // read()/readBytes() calls after the source reported its end
  size_t empty_reads = 0;      // Arduino Stream: non-blocking read() calls that found the receive buffer momentarily empty
  bool counted = false;
  const void* lowest_sp = nullptr;  // lowest stack address seen inside read() (C15)
};

// custom reader (the documented "custom reader" concept)
struct CountingReader {
  const char* p; const char* end; ReadStats* st; bool ended = false;
  void note() { char probe; const void* sp = &probe; if (!st->lowest_sp || sp < st->lowest_sp) st->lowest_sp = sp; }
  int read() {
    note();
    if (ended) st->reads_after_end++;
    if (p < end) { st->delivered++; return (unsigned char)*p++; }
    ended = true; return -1;
  }
  size_t readBytes(char* buf, size_t n) {
    note();
    if (ended) st->reads_after_end++;
    size_t k = 0;
    while (k < n && p < end) buf[k++] = *p++;
    st->delivered += k;
    if (k < n) ended = true;
    return k;
  }
};

// streambuf handing out the bytes in chunks of `chunk`
struct ChunkBuf : std::streambuf {
  const char* base; size_t size, pos = 0, chunk; ReadStats* st; std::vector<char> buf;
  ChunkBuf(const char* b, size_t n, size_t c, ReadStats* s) : base(b), size(n), chunk(c ? c : 1), st(s), buf(chunk) {}
  int_type underflow() override {
    if (pos >= size) { return traits_type::eof(); }
    size_t k = std::min(chunk, size - pos);
    memcpy(buf.data(), base + pos, k);
    pos += k;
    setg(buf.data(), buf.data(), buf.data() + k);
    return traits_type::to_int_type(buf[0]);
  }
  // bytes the library actually consumed = handed out minus still buffered
  size_t consumed() const { return pos - (size_t)(egptr() - gptr()); }
};

#ifdef VF_ARDUINO_SHIM
// Arduino semantics: bytes arrive in bursts. read() does not wait: it returns -1 whenever the receive buffer is momentarily
// empty (the next burst arrives "later"); readBytes() waits (up to its timeout) and only comes back short at the real end.
struct ShimStream : public ::Stream {
  const char* p; const char* end; ReadStats* st; bool ended = false;
  size_t avail = 1; unsigned phase = 0;
  void next_burst() { static const size_t bursts[] = {1, 3, 2, 7, 1, 64, 5, 16}; avail = bursts[phase++ % 8]; }
  int read() override {
    if (ended) st->reads_after_end++;
    if (p >= end) { ended = true; return -1; }
    if (avail == 0) { next_burst(); st->empty_reads++; return -1; }   // nothing buffered right now
    avail--; st->delivered++; return (unsigned char)*p++;
  }
  size_t readBytes(char* buf, size_t n) override {
    if (ended) st->reads_after_end++;
    size_t k = 0;
    while (k < n && p < end) { if (avail == 0) next_burst(); avail--; buf[k++] = *p++; }
    st->delivered += k; if (k < n) ended = true; return k;
  }
};
#endif

struct DeserOpt {
  bool msgpack = false;
  bool use_filter = false;
  AJ::JsonVariantConst filter;
  uint8_t limit = 10;
  bool filter_first = false;
  bool no_limit_option = false;   // call without NestingLimit: ARDUINOJSON_DEFAULT_NESTING_LIMIT applies
  size_t chunk = 7;
};

template <class... In>
AJ::DeserializationError deser_call(AJ::JsonDocument& doc, const DeserOpt& o, In&&... in) {
  if (o.no_limit_option) {
    if (o.use_filter) {
      auto f = AJ::DeserializationOption::Filter(o.filter);
      return o.msgpack ? AJ::deserializeMsgPack(doc, in..., f) : AJ::deserializeJson(doc, in..., f);
    }
    return o.msgpack ? AJ::deserializeMsgPack(doc, in...) : AJ::deserializeJson(doc, in...);
  }
  auto nl = AJ::DeserializationOption::NestingLimit(o.limit);
  if (o.use_filter) {
    auto f = AJ::DeserializationOption::Filter(o.filter);
    if (o.filter_first) {
      if (o.msgpack) return AJ::deserializeMsgPack(doc, in..., f, nl);
      return AJ::deserializeJson(doc, in..., f, nl);
    }
    // both argument orders are part of the API
    if (o.msgpack) return AJ::deserializeMsgPack(doc, in..., nl, f);
    return AJ::deserializeJson(doc, in..., nl, f);
  }
  if (o.msgpack) return AJ::deserializeMsgPack(doc, in..., nl);
  return AJ::deserializeJson(doc, in..., nl);
}

// The bytes a given kind effectively presents to the parser.
inline std::string effective_bytes(int kind, const std::string& bytes) {
  if (!inkind_zero_terminated(kind)) return bytes;
  size_t z = bytes.find('\0');
  return z == std::string::npos ? bytes : bytes.substr(0, z);
}

// Run one deserialization with the given input kind.  Each call works on a
// fresh exactly sized heap copy which is freed (and thereby poisoned) right
// after the call.
inline AJ::DeserializationError deser_kind(int kind, AJ::JsonDocument& doc, const std::string& bytes, const DeserOpt& o, ReadStats* st) {
  ReadStats local; if (!st) st = &local;
  size_t n = bytes.size();
  AJ::DeserializationError err;
  switch (kind) {
    case IN_CSTR: case IN_CHAR_PTR: {
      std::string e = effective_bytes(kind, bytes);
      char* p = (char*)malloc(e.size() + 1); memcpy(p, e.data(), e.size()); p[e.size()] = 0;
      err = kind == IN_CSTR ? deser_call(doc, o, (const char*)p) : deser_call(doc, o, (char*)p);
      free(p); break;
    }
    case IN_PTR_SIZE: case IN_UCHAR_PTR_SIZE: {
      char* p = (char*)malloc(n ? n : 1); memcpy(p, bytes.data(), n);
      err = kind == IN_PTR_SIZE ? deser_call(doc, o, (const char*)p, n) : deser_call(doc, o, (const unsigned char*)p, n);
      free(p); break;
    }
    case IN_STD_STRING: { std::string* s = new std::string(bytes); err = deser_call(doc, o, *s); delete s; break; }
    case IN_STRING_VIEW: {
      char* p = (char*)malloc(n ? n : 1); memcpy(p, bytes.data(), n);
      err = deser_call(doc, o, std::string_view(p, n));
      free(p); break;
    }
    case IN_ISTREAM: {
      char* p = (char*)malloc(n ? n : 1); memcpy(p, bytes.data(), n);
      { ChunkBuf cb(p, n, o.chunk, st); std::istream is(&cb); err = deser_call(doc, o, is); st->delivered = cb.consumed(); st->counted = true; }
      free(p); break;
    }
    case IN_CUSTOM_READER: {
      char* p = (char*)malloc(n ? n : 1); memcpy(p, bytes.data(), n);
      { CountingReader cr{p, p + n, st}; err = deser_call(doc, o, cr); st->counted = true; }
      free(p); break;
    }
    case IN_VARIANT: {
      std::string e = effective_bytes(kind, bytes);
      char* p = (char*)malloc(e.size() + 1); memcpy(p, e.data(), e.size()); p[e.size()] = 0;
      {
        AJ::JsonDocument holder;
        // copied when it fits the configured string length, linked (kept by address) otherwise
        if (e.size() <= kMaxStringLength && (e.size() & 1)) holder["input"] = e; else holder["input"] = (const char*)p;
        err = deser_call(doc, o, holder["input"]);
      }
      free(p);
      break;
    }
#ifdef VF_ARDUINO_SHIM
    case IN_FLASH: {
      std::string e = effective_bytes(kind, bytes);
      char* p = (char*)malloc(e.size() + 1); memcpy(p, e.data(), e.size()); p[e.size()] = 0;
      err = deser_call(doc, o, reinterpret_cast<const __FlashStringHelper*>(vf_to_flash(p)));
      free(p); break;
    }
    case IN_FLASH_SIZE: {
      char* p = (char*)malloc(n ? n : 1); memcpy(p, bytes.data(), n);
      err = deser_call(doc, o, reinterpret_cast<const __FlashStringHelper*>(vf_to_flash(p)), n);
      free(p); break;
    }
    case IN_ARDUINO_STRING: { ::String* s = new ::String(bytes.data(), (unsigned int)bytes.size()); err = deser_call(doc, o, *s); delete s; break; }
    case IN_ARDUINO_STREAM: {
      char* p = (char*)malloc(n ? n : 1); memcpy(p, bytes.data(), n);
      { ShimStream ss; ss.p = p; ss.end = p + n; ss.st = st; err = deser_call(doc, o, ss); st->counted = true; }
      free(p); break;
    }
#endif
    default: err = AJ::DeserializationError::InvalidInput;
  }
  return err;
}

}  // namespace vf
