// Instrumented ArduinoJson::Allocator: ledger of live blocks, event counters,
// optional failure schedule.  Every block is an exactly sized malloc block so
// that ASan red zones sit right at its edges, and reallocate always moves the
// block so that stale pointers into the old block are caught.
#pragma once
#include <stdlib.h>
#include <string.h>
#include <set>
#include <string>
#include <unordered_map>
#include <vector>
#include "aj.hpp"

namespace vf {

class SpyAllocator : public AJ::Allocator {
 public:
  std::unordered_map<void*, size_t> live;
  uint64_t n_allocate = 0, n_reallocate = 0, n_deallocate = 0;
  uint64_t failable_calls = 0;   // allocate + growing reallocate, numbered from 1
  uint64_t failures_injected = 0;
  uint64_t bytes_requested = 0;  // sum of sizes asked of allocate + reallocate
  size_t live_bytes = 0, peak_live_bytes = 0;
  size_t largest_request = 0;
  std::vector<std::string> errors;  // protocol violations by the library

  // failure schedule
  std::set<uint64_t> fail_at;       // failable call numbers that return null
  uint64_t fail_from = 0;           // >0: every failable call numbered >= this fails
  bool fail_all = false;
  size_t fail_above_size = 0;       // >0: any request larger than this fails (emulates small heaps)

  ~SpyAllocator() { release_all(); }

  void release_all() {
    for (auto& kv : live) free(kv.first);
    live.clear(); live_bytes = 0;
  }
  void reset_counters() {
    n_allocate = n_reallocate = n_deallocate = failable_calls = failures_injected = bytes_requested = 0;
    peak_live_bytes = live_bytes; largest_request = 0;
  }
  uint64_t calls() const { return n_allocate + n_reallocate + n_deallocate; }
  void no_failures() { fail_at.clear(); fail_from = 0; fail_all = false; fail_above_size = 0; }

  void* allocate(size_t n) override {
    n_allocate++; bytes_requested += n; if (n > largest_request) largest_request = n;
    if (should_fail(n)) return nullptr;
    void* p = malloc(n ? n : 1);
    if (!p) return nullptr;
    live[p] = n; bump(n);
    return p;
  }

  void deallocate(void* p) override {
    n_deallocate++;
    if (!p) return;
    auto it = live.find(p);
    if (it == live.end()) { errors.push_back("deallocate of a pointer that is not a live block of this allocator"); return; }
    live_bytes -= it->second;
    live.erase(it);
    free(p);
  }

  void* reallocate(void* p, size_t n) override {
    n_reallocate++; bytes_requested += n; if (n > largest_request) largest_request = n;
    if (!p) {
      if (should_fail(n)) return nullptr;
      void* q = malloc(n ? n : 1); if (!q) return nullptr;
      live[q] = n; bump(n); return q;
    }
    auto it = live.find(p);
    if (it == live.end()) { errors.push_back("reallocate of a pointer that is not a live block of this allocator"); return nullptr; }
    size_t old = it->second;
    if (n > old) { if (should_fail(n)) return nullptr; }
    void* q = malloc(n ? n : 1);
    if (!q) return nullptr;
    memcpy(q, p, n < old ? n : old);
    live.erase(it); live_bytes -= old;
    free(p);
    live[q] = n; bump(n);
    return q;
  }

 private:
  void bump(size_t n) { live_bytes += n; if (live_bytes > peak_live_bytes) peak_live_bytes = live_bytes; }
  bool should_fail(size_t n) {
    failable_calls++;
    bool f = fail_all || (fail_from && failable_calls >= fail_from) || fail_at.count(failable_calls) || (fail_above_size && n > fail_above_size);
    if (f) failures_injected++;
    return f;
  }
};

}  // namespace vf
