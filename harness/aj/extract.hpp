// extract(): live JsonVariantConst -> MVal through the PUBLIC read API only.
// build(): MVal -> JsonVariant through the public write API.
#pragma once
#include "../common/mval.hpp"
#include "aj.hpp"

namespace vf {

struct ExtractOpt {
  size_t max_nodes = 5000000;  // guard against cyclic / diverged structures
};

struct ExtractState {
  size_t nodes = 0;
  bool overflow = false;       // node budget exceeded (structure probably cyclic)
  bool cstr_unterminated = false;  // as<const char*>() not NUL-terminated at size()
};

inline MVal extract_rec(AJ::JsonVariantConst v, ExtractState& st, const ExtractOpt& o, int depth) {
  if (++st.nodes > o.max_nodes || depth > 100000) { st.overflow = true; return MVal::null(); }
  if (v.is<AJ::JsonArrayConst>()) {
    MVal m = MVal::arr();
    AJ::JsonArrayConst a = v.as<AJ::JsonArrayConst>();
    for (AJ::JsonVariantConst e : a) {
      m.a.push_back(extract_rec(e, st, o, depth + 1));
      if (st.overflow) break;
    }
    return m;
  }
  if (v.is<AJ::JsonObjectConst>()) {
    MVal m = MVal::obj();
    AJ::JsonObjectConst ob = v.as<AJ::JsonObjectConst>();
    for (AJ::JsonPairConst kv : ob) {
      AJ::JsonString k = kv.key();
      m.o.emplace_back(std::string(k.c_str() ? k.c_str() : "", k.c_str() ? k.size() : 0), extract_rec(kv.value(), st, o, depth + 1));
      if (st.overflow) break;
    }
    return m;
  }
  if (v.is<bool>()) return MVal::boolean(v.as<bool>());
  if (v.is<AJ::JsonString>()) {
    AJ::JsonString s = v.as<AJ::JsonString>();
    const char* p = v.as<const char*>();
    if (p && p[s.size()] != 0) st.cstr_unterminated = true;
    return MVal::str(std::string(s.c_str(), s.size()));
  }
  if (v.is<AJ::JsonUInt>()) return MVal::uint((uint64_t)v.as<AJ::JsonUInt>());
  if (v.is<AJ::JsonInteger>()) return MVal::sint((int64_t)v.as<AJ::JsonInteger>());
  if (v.is<AJ::JsonFloat>()) return MVal::flt((double)v.as<AJ::JsonFloat>());
  if (v.is<AJ::MsgPackBinary>()) {
    AJ::MsgPackBinary b = v.as<AJ::MsgPackBinary>();
    return MVal::bin(std::string((const char*)b.data(), b.size()));
  }
  if (v.is<AJ::MsgPackExtension>()) {
    AJ::MsgPackExtension e = v.as<AJ::MsgPackExtension>();
    return MVal::extv(e.type(), std::string((const char*)e.data(), e.size()));
  }
  if (v.isNull()) return MVal::null();
  // raw value: only visible through serialization
  std::string s;
  AJ::serializeJson(v, s);
  return MVal::raw(s);
}

inline MVal extract(AJ::JsonVariantConst v, ExtractState* st = nullptr, ExtractOpt o = ExtractOpt()) {
  ExtractState local;
  ExtractState& s = st ? *st : local;
  return extract_rec(v, s, o, 0);
}

// ------------------------------------------------------------------ build

struct BuildOpt {
  Rng* rng = nullptr;        // when set: vary the C++ types used to store values
  bool linked_strings = false;  // store strings without NUL as const char* (linked) – caller keeps the model alive!
};

inline bool build(AJ::JsonVariant dst, const MVal& m, const BuildOpt& o = BuildOpt()) {
  Rng* r = o.rng;
  switch (m.k) {
    case MVal::Null: return dst.set(nullptr);
    case MVal::Bool: return dst.set(m.b);
    case MVal::Int: {
      if (m.neg) {
        int64_t v = m.as_i64();
        if (r && v >= -128 && r->coin()) return dst.set((signed char)v);
        if (r && v >= -32768 && r->coin()) return dst.set((short)v);
        if (r && v >= INT32_MIN && r->coin()) return dst.set((int)v);
        if (r && r->coin()) return dst.set((long)v);
        return dst.set((long long)v);
      }
      uint64_t v = m.mag;
      bool as_signed = v <= (uint64_t)INT64_MAX && (!r || r->coin());
      if (as_signed) {
        if (r && v <= 127 && r->coin()) return dst.set((signed char)v);
        if (r && v <= 32767 && r->coin()) return dst.set((short)v);
        if (r && v <= INT32_MAX && r->coin()) return dst.set((int)v);
        return dst.set((int64_t)v);
      }
      if (r && v <= 255 && r->coin()) return dst.set((unsigned char)v);
      if (r && v <= 65535 && r->coin()) return dst.set((unsigned short)v);
      if (r && v <= UINT32_MAX && r->coin()) return dst.set((unsigned int)v);
      if (r && r->coin()) return dst.set((unsigned long)v);
      return dst.set((unsigned long long)v);
    }
    case MVal::Float: {
      float f = (float)m.f;
      if (((double)f == m.f || m.f != m.f) && (!r || r->coin())) return dst.set(f);
      return dst.set(m.f);
    }
    case MVal::Str:
      if (o.linked_strings && m.s.find('\0') == std::string::npos) return dst.set((const char*)m.s.c_str());
      if (r && r->coin()) return dst.set(AJ::JsonString(m.s.data(), m.s.size(), AJ::JsonString::Copied));
      return dst.set(m.s);
    case MVal::Raw: return dst.set(AJ::serialized(m.s));
    case MVal::Bin: return dst.set(AJ::MsgPackBinary(m.s.data(), m.s.size()));
    case MVal::Ext: return dst.set(AJ::MsgPackExtension(m.ext, m.s.data(), m.s.size()));
    case MVal::Arr: {
      AJ::JsonArray a = dst.to<AJ::JsonArray>();
      if (a.isNull()) return false;
      bool ok = true;
      for (auto& e : m.a) {
        AJ::JsonVariant x = a.add<AJ::JsonVariant>();
        if (x.isUnbound()) return false;
        ok = build(x, e, o) && ok;
      }
      return ok;
    }
    case MVal::Obj: {
      AJ::JsonObject ob = dst.to<AJ::JsonObject>();
      if (ob.isNull()) return false;
      bool ok = true;
      for (auto& kv : m.o) {
        AJ::JsonVariant x;
        if (o.linked_strings && kv.first.find('\0') == std::string::npos) x = ob[(const char*)kv.first.c_str()].to<AJ::JsonVariant>();
        else x = ob[kv.first].to<AJ::JsonVariant>();
        if (x.isUnbound()) return false;
        ok = build(x, kv.second, o) && ok;
      }
      return ok;
    }
  }
  return false;
}

// Upper bound on the pool slots the library needs to hold m (root excluded):
// one per element, two per member, one extension slot per 64-bit number.
inline size_t slot_demand(const MVal& m, bool is_root = true) {
  size_t n = is_root ? 0 : 1;
  if (m.k == MVal::Int && m.mag > 0x7FFFFFFFull) n++;
  if (m.k == MVal::Float && kUseDouble && (double)(float)m.f != m.f && m.f == m.f) n++;
  for (auto& e : m.a) n += slot_demand(e, false);
  for (auto& e : m.o) n += 1 + slot_demand(e.second, false);
  return n;
}
inline size_t longest_string(const MVal& m) {
  size_t n = 0;
  if (m.k == MVal::Str || m.k == MVal::Raw) n = m.s.size();
  if (m.k == MVal::Bin) n = m.s.size() + 5;
  if (m.k == MVal::Ext) n = m.s.size() + 6;
  for (auto& e : m.a) n = std::max(n, longest_string(e));
  for (auto& e : m.o) n = std::max(std::max(n, e.first.size()), longest_string(e.second));
  return n;
}
// true when the configured capacity limits cannot be the reason for a failure
inline bool within_capacity(const MVal& m) {
  return slot_demand(m) <= kMaxSlots && longest_string(m) <= kMaxStringLength;
}

// The value a correct library holds after build(): set(double) keeps the
// double; with USE_DOUBLE=0 everything is rounded to float.  Ints unchanged.
inline MVal stored_form(const MVal& m) {
  MVal r = m;
  if (r.k == MVal::Float && !kUseDouble) r.f = (double)(float)r.f;
  for (auto& e : r.a) e = stored_form(e);
  for (auto& e : r.o) e.second = stored_form(e.second);
  return r;
}

}  // namespace vf
