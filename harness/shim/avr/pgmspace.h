// Mock of AVR flash memory for the verification harness.
// A "flash" pointer is the real address plus a non-canonical offset: any
// direct dereference (instead of pgm_read_byte) faults immediately.
#pragma once
#include <stdint.h>
#include <stddef.h>

#define PROGMEM

class __FlashStringHelper;

static const uintptr_t VF_FLASH_OFFSET = (uintptr_t)1 << 60;

inline const void* vf_to_flash(const void* s) {
  return s ? reinterpret_cast<const void*>(reinterpret_cast<uintptr_t>(s) + VF_FLASH_OFFSET) : nullptr;
}
inline const void* vf_from_flash(const void* s) {
  return reinterpret_cast<const void*>(reinterpret_cast<uintptr_t>(s) - VF_FLASH_OFFSET);
}


inline uint8_t pgm_read_byte(const void* p) {
  return *reinterpret_cast<const uint8_t*>(vf_from_flash(p));
}

#define PSTR(X) reinterpret_cast<const char*>(vf_to_flash(X))
#define F(X) reinterpret_cast<const __FlashStringHelper*>(PSTR(X))

#define ARDUINOJSON_DEFINE_PROGMEM_ARRAY(type, name, ...)                \
  static type const ARDUINOJSON_CONCAT2(name, _progmem)[] = __VA_ARGS__; \
  static type const* name = reinterpret_cast<type const*>(               \
      vf_to_flash(ARDUINOJSON_CONCAT2(name, _progmem)));
