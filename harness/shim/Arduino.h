// Minimal Arduino core mock (Print, Printable, Stream, String, flash helpers)
// written for the verification harness; mirrors the public Arduino API that
// ArduinoJson uses, nothing more.
#pragma once
#include <stdint.h>
#include <stdlib.h>
#include <string.h>
#include <string>
#include "avr/pgmspace.h"

class Print {
 public:
  virtual ~Print() {}
  virtual size_t write(uint8_t) = 0;
  virtual size_t write(const uint8_t* buffer, size_t size) = 0;
  size_t write(const char* str) { return str ? write(reinterpret_cast<const uint8_t*>(str), strlen(str)) : 0; }
  size_t write(const char* buffer, size_t size) { return write(reinterpret_cast<const uint8_t*>(buffer), size); }
};

class Printable {
 public:
  virtual ~Printable() {}
  virtual size_t printTo(Print& p) const = 0;
};

class Stream {
 public:
  virtual ~Stream() {}
  virtual int read() = 0;
  virtual size_t readBytes(char* buffer, size_t length) = 0;
};

// Arduino's String: a length plus a NUL-terminated heap buffer of exactly length+1 bytes (so that a reader running past the
// terminator meets a red zone); like the real class it can hold embedded NUL bytes (String(const char*, unsigned) and
// concat(const char*, unsigned) of the ESP / newer AVR cores); concat() may fail (returns 0).
class String {
 public:
  String() { set("", 0); }
  String(const char* s) { set(s ? s : "", s ? strlen(s) : 0); }
  String(const char* s, unsigned int n) { set(s, n); }
  String(const String& o) { set(o.buf_, o.len_); }
  String& operator=(const String& o) { if (this != &o) set(o.buf_, o.len_); return *this; }
  ~String() { free(buf_); }
  void limitCapacityTo(size_t n) { max_ = n; }
  unsigned char concat(const char* s) { return concat(s, strlen(s)); }
  size_t length() const { return len_; }
  const char* c_str() const { return buf_; }
  bool operator==(const char* s) const { return strlen(s) == len_ && memcmp(buf_, s, len_) == 0; }
  String& operator=(const char* s) { set(s ? s : "", s ? strlen(s) : 0); return *this; }
  char operator[](unsigned int i) const { return i < len_ ? buf_[i] : 0; }
  std::string std() const { return std::string(buf_, len_); }

 protected:
  unsigned char concat(const char* s, size_t n) {
    if (len_ + n > max_) return 0;
    char* nb = (char*)malloc(len_ + n + 1);
    memcpy(nb, buf_, len_); memcpy(nb + len_, s, n); nb[len_ + n] = 0;
    free(buf_); buf_ = nb; len_ += n;
    return 1;
  }

 private:
  void set(const char* s, size_t n) { char* nb = (char*)malloc(n + 1); if (n) memcpy(nb, s, n); nb[n] = 0; free(buf_); buf_ = nb; len_ = n; }
  char* buf_ = nullptr;
  size_t len_ = 0;
  size_t max_ = (size_t)-1;
};

class StringSumHelper : public ::String {};
