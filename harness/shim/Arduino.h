// Minimal Arduino core mock (Print, Printable, Stream, String, flash helpers)
// written for the verification harness; mirrors the public Arduino API that
// ArduinoJson uses, nothing more.
#pragma once
#include <stdint.h>
#include <stdlib.h>
#include <string.h>
#include <string>
#include "avr/pgmspace.h"

class Print {
 public:
  virtual ~Print() {}
  virtual size_t write(uint8_t) = 0;
  virtual size_t write(const uint8_t* buffer, size_t size) = 0;
  size_t write(const char* str) { return str ? write(reinterpret_cast<const uint8_t*>(str), strlen(str)) : 0; }
  size_t write(const char* buffer, size_t size) { return write(reinterpret_cast<const uint8_t*>(buffer), size); }
};

class Printable {
 public:
  virtual ~Printable() {}
  virtual size_t printTo(Print& p) const = 0;
};

class Stream {
 public:
  virtual ~Stream() {}
  virtual int read() = 0;
  virtual size_t readBytes(char* buffer, size_t length) = 0;
};

// Arduino's String: NUL-terminated, concat() may fail (returns 0).
class String {
 public:
  String() = default;
  String(const char* s) { if (s) str_.assign(s); }
  void limitCapacityTo(size_t n) { max_ = n; }
  unsigned char concat(const char* s) { return concat(s, strlen(s)); }
  size_t length() const { return str_.size(); }
  const char* c_str() const { return str_.c_str(); }
  bool operator==(const char* s) const { return str_ == s; }
  String& operator=(const char* s) { if (s) str_.assign(s); else str_.clear(); return *this; }
  char operator[](unsigned int i) const { return i < str_.size() ? str_[i] : 0; }
  const std::string& std() const { return str_; }

 protected:
  unsigned char concat(const char* s, size_t n) {
    if (str_.size() + n > max_) return 0;
    str_.append(s, n);
    return 1;
  }

 private:
  std::string str_;
  size_t max_ = (size_t)-1;
};

class StringSumHelper : public ::String {};
