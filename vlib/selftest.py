"""./check --setup: self-test of the reference oracles against CPython (json, float, int) and fixed MessagePack vectors.
A reference that disagrees with its cross-check makes the setup fail (exit 2): its verdicts could not be trusted."""
import json, os, subprocess, sys
from . import core


def dump_py(v):
    if v is None:
        return 'n'
    if v is True:
        return 't'
    if v is False:
        return 'f'
    if isinstance(v, int):
        return 'i%d' % v
    if isinstance(v, float):
        return 'd' + cfloat(v)
    if isinstance(v, str):
        return 's' + v.encode('utf-8', 'surrogatepass').hex()
    if isinstance(v, list) and v and isinstance(v[0], tuple) and v[0][0] == '\x00pairs':
        return '{' + ','.join('s' + k.encode('utf-8', 'surrogatepass').hex() + ':' + dump_py(x) for k, x in v[1:]) + '}'
    if isinstance(v, list):
        return '[' + ','.join(dump_py(x) for x in v) + ']'
    raise ValueError(type(v))


def cfloat(x):
    """C's %a for a finite double, from Python's float.hex() (normalises the mantissa like glibc)."""
    if x != x:
        return 'nan'
    if x in (float('inf'), float('-inf')):
        return '-inf' if x < 0 else 'inf'
    if x == 0:
        return '-0x0p+0' if str(x).startswith('-') else '0x0p+0'
    h = x.hex()            # e.g. -0x1.8000000000000p+0
    sign = '-' if h.startswith('-') else ''
    h = h.lstrip('-')
    mant, exp = h[2:].split('p')
    ip, fp = mant.split('.')
    fp = fp.rstrip('0')
    return '%s0x%s%sp%+d' % (sign, ip, ('.' + fp) if fp else '', int(exp))


def pairs_hook(pairs):
    return [('\x00pairs', None)] + list(pairs)


def dedup(v):
    """model semantics are 'all pairs in order'; CPython keeps pairs through the hook: compare as sequences"""
    return v


def run():
    os.makedirs(os.path.join(core.BUILD, 'selftest'), exist_ok=True)
    exe = os.path.join(core.BUILD, 'selftest', 'selftest')
    src = os.path.join(core.HARNESS, 'drivers', 'selftest.cpp')
    r = subprocess.run(['g++', '-std=gnu++17', '-O1', '-g', src, '-o', exe], stdout=subprocess.PIPE, stderr=subprocess.STDOUT, text=True)
    if r.returncode:
        print(r.stdout[-3000:])
        print('setup: reference oracles do not compile')
        return 2
    out = subprocess.run([exe, '4000'], stdout=subprocess.PIPE, text=True).stdout
    bad, counts = [], {}
    for line in out.splitlines():
        d = json.loads(line)
        k = d['k']
        counts[k] = counts.get(k, 0) + 1
        if k == 'json':
            text = bytes.fromhex(d['text']).decode('utf-8', 'surrogatepass')
            try:
                py = json.loads(text, object_pairs_hook=pairs_hook)
            except Exception as e:
                bad.append('CPython rejects a text the reference renderer produced: %r (%s)' % (text[:80], e))
                continue
            dp = dump_py(py)
            if dp != d['model']:
                bad.append('renderer: CPython reads %s, model is %s for %r' % (dp[:120], d['model'][:120], text[:80]))
            if not d['parsed_ok'] or d['parsed'] != dp:
                bad.append('parser: reference parser reads %s, CPython %s for %r' % (d['parsed'][:120], dp[:120], text[:80]))
        elif k == 'lit':
            lit = d['lit']
            try:
                pf = float(lit)
            except ValueError:
                continue
            if cfloat(pf) != d['dbl']:
                bad.append('literal %s: reference %s, CPython %s' % (lit[:60], d['dbl'], cfloat(pf)))
            if d['is_int'] and int(lit) != int(d['int']):
                bad.append('integer literal %s: reference %s' % (lit[:60], d['int']))
        elif k == 'mpvec':
            if not d['ok'] or d['consumed'] != d['len'] or d['got'] != d['want']:
                bad.append('MessagePack vector %s decodes to %s, expected %s' % (d['hex'], d['got'], d['want']))
        elif k == 'mprt':
            if d['bad']:
                bad.append('MessagePack encode/decode identity or prefix rule failed on %d of %d cases' % (d['bad'], d['cases']))
        elif k == 'dialect':
            if d['got'] != d['want']:
                bad.append('dialect recogniser: %r -> %s, expected %s' % (bytes.fromhex(d['text']), d['got'], d['want']))
    if not counts.get('json') or not counts.get('lit') or not counts.get('dialect'):
        bad.append('self-test produced no cases')
    for b in bad[:20]:
        print('SELFTEST-FAIL: ' + b)
    print('setup: oracle self-test %s (%s)' % ('FAILED' if bad else 'ok', ', '.join('%s=%d' % kv for kv in sorted(counts.items()))))
    return 2 if bad else 0
