"""./check --setup: self-test of the reference oracles (filled in as they are written)."""
def run():
    print('setup: ok')
    return 0
