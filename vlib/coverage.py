"""Library line coverage of the monitoring workloads (what the monitors actually drove, per check).

  python3 -m vlib.coverage [C01 C07 ...] [--scale 20] [--out coverage/map.json]

Every quick-tier job of the named checks (default: all; wrapper jobs such as memcheck, the TSan job and the minutes-long
boundary32 jobs are skipped, they run the same code as their siblings) is compiled once more with `g++ -O0 --coverage`
into a scratch directory under /var/tmp (removed afterwards), run with 1/scale of its quick case count through the same
worker pool, and gcov's per-line execution counts for every file under <repo>/src are merged: per check and over all
checks.  A line counts as *executable* when gcov lists it for at least one driver (header-only library: a template that
no driver instantiates is invisible to gcov; those are found by comparing with the function list of the other drivers).

The result is a map, not a verdict: it is written to coverage/map.json (+ coverage/uncovered.txt, the executable lines
no check reached, grouped by file and function) and is used to aim workloads, and to state in DESIGN.md which library
code no monitor drives.  It is not registered as a check.
"""
import argparse, json, os, shutil, subprocess, sys, tempfile

from . import core
from .props import PROPS

SRC = os.path.join(core.REPO, 'src')


def cov_build(job, outdir):
    os.makedirs(outdir, exist_ok=True)
    exe = os.path.join(outdir, job.driver)
    dflags = ['-D%s' % core.GUARD] + ['-D%s=%s' % (k, v) for k, v in sorted(job.defines.items())]
    if job.shim:
        dflags += ['-DVF_ARDUINO_SHIM', '-I' + os.path.join(core.HARNESS, 'shim')]
    cmd = ['g++', '-std=gnu++17', '-O0', '-g', '--coverage', '-pthread'] + dflags + (job.extra or []) + [
        '-I' + SRC, os.path.join(core.HARNESS, 'drivers', job.driver + '.cpp'), '-o', exe]
    p = subprocess.run(cmd, cwd=outdir, stdout=subprocess.PIPE, stderr=subprocess.STDOUT, text=True)
    if p.returncode:
        raise core.HarnessError('coverage build failed: %s\n%s' % (job.name, p.stdout[-2000:]))
    return exe


def gcov_lines(outdir, driver):
    """{file: {line: count}}, {file: {function: (start_line, execution_count)}} for files under SRC."""
    p = subprocess.run(['gcov', '--json-format', '--stdout', os.path.join(outdir, driver + '.gcda')], cwd=outdir,
                       stdout=subprocess.PIPE, stderr=subprocess.DEVNULL, text=True)
    lines, funcs = {}, {}
    for doc in p.stdout.splitlines():
        if not doc.startswith('{'):
            continue
        d = json.loads(doc)
        for f in d.get('files', []):
            path = os.path.normpath(os.path.join(outdir, f['file']))
            if not path.startswith(SRC + os.sep):
                continue
            rel = os.path.relpath(path, SRC)
            L = lines.setdefault(rel, {})
            for l in f['lines']:
                L[l['line_number']] = L.get(l['line_number'], 0) + l['count']
            F = funcs.setdefault(rel, {})
            for fn in f.get('functions', []):
                name = fn.get('demangled_name') or fn['name']
                s, c = F.get(name, (fn['start_line'], 0))
                F[name] = (s, c + fn['execution_count'])
    return lines, funcs


def merge(into, lines):
    for f, L in lines.items():
        T = into.setdefault(f, {})
        for n, c in L.items():
            T[n] = T.get(n, 0) + c


def main():
    ap = argparse.ArgumentParser()
    ap.add_argument('pids', nargs='*')
    ap.add_argument('--scale', type=int, default=20)
    ap.add_argument('--seed', type=int, default=1)
    ap.add_argument('--out', default=os.path.join(core.VERIF, 'coverage', 'map.json'))
    a = ap.parse_args()
    pids = a.pids or sorted(PROPS)
    root = tempfile.mkdtemp(prefix='ajv-cov-', dir='/var/tmp')
    total, per_check, allfuncs = {}, {}, {}
    report = dict(scale=a.scale, seed=a.seed, tree_hash=core.tree_hash()[:16], checks={})
    try:
        for pid in pids:
            mine = {}
            jobs = [j for j in PROPS[pid]['jobs']('quick') if not j.wrapper and j.flavour != 'tsan' and j.mode != 'boundary32']
            for j in jobs:
                od = os.path.join(root, '%s-%s' % (pid, j.name))
                try:
                    j.exe = cov_build(j, od)
                except core.HarnessError as e:
                    print('  %s/%s: %s' % (pid, j.name, str(e)[:300]))
                    continue
                j.flavour = 'plain'
                if j.count:
                    j.count = max(64, j.count // a.scale)
                j.max_crashes = 4
                r = core.run_job(j, a.seed, 'quick', os.path.join(od, 'work'), None)
                lines, funcs = gcov_lines(od, j.driver)
                merge(mine, lines)
                for f, F in funcs.items():
                    T = allfuncs.setdefault(f, {})
                    for name, (s, c) in F.items():
                        s0, c0 = T.get(name, (s, 0))
                        T[name] = (s0, c0 + c)
                print('  %s/%s: %d cases, %d library lines reached' % (pid, j.name, r['evaluations'], sum(1 for L in lines.values() for c in L.values() if c > 0)), flush=True)
                shutil.rmtree(od, ignore_errors=True)
            per_check[pid] = mine
            merge(total, mine)
            ex = sum(len(L) for L in mine.values())
            hit = sum(1 for L in mine.values() for c in L.values() if c > 0)
            report['checks'][pid] = dict(executable_lines_seen=ex, lines_reached=hit)
            print('%s: %d of %d instantiated library lines reached' % (pid, hit, ex), flush=True)
    finally:
        shutil.rmtree(root, ignore_errors=True)
    ex = sum(len(L) for L in total.values())
    hit = sum(1 for L in total.values() for c in L.values() if c > 0)
    report['all_checks'] = dict(executable_lines_seen=ex, lines_reached=hit)
    report['files'] = {f: dict(executable=len(L), reached=sum(1 for c in L.values() if c > 0),
                               unreached_lines=sorted(n for n, c in L.items() if c == 0)) for f, L in sorted(total.items())}
    report['functions_never_executed'] = {f: sorted((s, name[:200]) for name, (s, c) in F.items() if c == 0) for f, F in sorted(allfuncs.items())
                                          if any(c == 0 for _, c in F.values())}
    os.makedirs(os.path.dirname(a.out), exist_ok=True)
    with open(a.out, 'w') as fh:
        json.dump(report, fh, indent=1)
    with open(os.path.join(os.path.dirname(a.out), 'uncovered.txt'), 'w') as fh:
        fh.write('library lines that gcov lists as executable in at least one driver build and that no quick-tier workload (1/%d of its cases) reached\n' % a.scale)
        for f, d in report['files'].items():
            if not d['unreached_lines']:
                continue
            fh.write('\n%s  (%d of %d reached)\n' % (f, d['reached'], d['executable']))
            try:
                src = open(os.path.join(SRC, f), errors='replace').read().splitlines()
            except OSError:
                src = []
            for n in d['unreached_lines']:
                fh.write('  %5d  %s\n' % (n, src[n - 1].strip()[:110] if 0 < n <= len(src) else ''))
    print('all checks: %d of %d instantiated library lines reached; map in %s' % (hit, ex, a.out))
    return 0


if __name__ == '__main__':
    sys.exit(main())
