"""Seeded property-breaking changes (written by independent sub-agents): confirm and run.

  python3 -m vlib.seeded confirm <name> <dir-with-patch.diff,demo.cpp,meta.json> [--checks C01,C07]
      Confirms in a scratch worktree (under /var/tmp, removed afterwards) that the patch applies to /repo HEAD, the demo
      passes without and fails with the patch, and the pinned test-suite still passes with it; then runs the named checks
      (quick tier) against the patched tree and records which of them raise a VIOLATION.  Result -> /verif/seeded/<name>/.
  python3 -m vlib.seeded run [<name> ...] [--checks ...] [--tier quick]
      Re-runs the recorded checks against every kept seeded change; prints a table.
"""
import argparse, json, os, re, shutil, subprocess, sys, time

VERIF = os.path.dirname(os.path.dirname(os.path.abspath(__file__)))
REPO = '/repo'
SEEDED = os.path.join(VERIF, 'seeded')


def sh(cmd, **kw):
    return subprocess.run(cmd, shell=isinstance(cmd, str), stdout=subprocess.PIPE, stderr=subprocess.STDOUT, text=True, **kw)


def make_worktree(name):
    wt = '/var/tmp/seed-%s' % name
    sh(['git', '-C', REPO, 'worktree', 'remove', '--force', wt])
    shutil.rmtree(wt, ignore_errors=True)
    r = sh(['git', '-C', REPO, 'worktree', 'add', '-q', '--detach', wt, 'HEAD'])
    if r.returncode:
        raise SystemExit('cannot create worktree: ' + r.stdout)
    return wt


def drop_worktree(wt):
    sh(['git', '-C', REPO, 'worktree', 'remove', '--force', wt])
    shutil.rmtree(wt, ignore_errors=True)


def compile_demo(wt, d, meta, out):
    cmd = meta.get('demo_compile', '')
    defs = re.findall(r'(-D\S+)', cmd)
    std = re.findall(r'(-std=\S+)', cmd) or ['-std=c++17']
    extra = [x for x in re.findall(r'(-f\S+|-O\d|-g|-pthread|-l\S+)', cmd)]
    r = sh(['g++'] + std + defs + extra + ['-I' + os.path.join(wt, 'src'), '-I' + d, os.path.join(d, 'demo.cpp'), '-o', out])   # (-I d: stub headers shipped with the demo)
    return r.returncode == 0, r.stdout[-2000:]


def run_checks(wt, checks, tier):
    res = {}
    for c in checks:
        t0 = time.time()
        env = dict(os.environ, VERIF_REPO=wt)
        r = subprocess.run([os.path.join(VERIF, 'check'), c, '--tier', tier], stdout=subprocess.PIPE, stderr=subprocess.STDOUT, text=True, env=env, cwd=VERIF)
        kinds = re.findall(r'^  kind x\s*(\d+)\s+(.*)$', r.stdout, re.M)
        res[c] = dict(exit=r.returncode, detected=(r.returncode == 1 and 'VIOLATION property=' in r.stdout), wall_s=round(time.time() - t0, 1),
                      kinds=[k[1][:160] for k in kinds[:6]])
        print('    %s: exit %d %s (%.0fs) %s' % (c, r.returncode, 'DETECTED' if res[c]['detected'] else 'not detected', time.time() - t0, '; '.join(res[c]['kinds'][:2])), flush=True)
    return res


def confirm(name, src, checks, tier):
    meta = json.load(open(os.path.join(src, 'meta.json')))
    wt = make_worktree(name)
    rec = dict(meta, name=name, confirmed={})
    try:
        demo = '/var/tmp/seed-%s-demo' % name
        ok, out = compile_demo(wt, src, meta, demo)
        if not ok:
            raise SystemExit('demo does not compile on the unpatched tree:\n' + out)
        r0 = sh([demo], timeout=600)
        rec['confirmed']['demo_exit_without_patch'] = r0.returncode
        r = sh(['git', '-C', wt, 'apply', '--whitespace=nowarn', os.path.join(src, 'patch.diff')])
        if r.returncode:
            raise SystemExit('patch does not apply: ' + r.stdout)
        ok, out = compile_demo(wt, src, meta, demo)
        if not ok:
            raise SystemExit('demo does not compile on the patched tree:\n' + out)
        try:
            r1 = sh([demo], timeout=600)
            rec['confirmed']['demo_exit_with_patch'] = r1.returncode
            rec['confirmed']['demo_output_with_patch'] = r1.stdout[-600:]
        except subprocess.TimeoutExpired:
            rec['confirmed']['demo_exit_with_patch'] = 'timeout'
        os.remove(demo)
        b = os.path.join(wt, '_b')
        r = sh('cmake -G Ninja -S %s -B %s -DCMAKE_BUILD_TYPE=RelWithDebInfo -DCMAKE_CXX_FLAGS=-Wno-error >/dev/null && cmake --build %s -j16 2>&1 | tail -3 && ctest --test-dir %s -j8 --timeout 900 2>&1 | grep -E "tests passed|tests failed|Failed|FAILED" | head -8' % (wt, b, b, b))
        rec['confirmed']['suite_passes_with_patch'] = '100% tests passed' in r.stdout
        rec['confirmed']['suite_tail'] = r.stdout[-300:]
        shutil.rmtree(b, ignore_errors=True)
        print('  %s: demo without patch -> %s, with patch -> %s, suite passes: %s' % (name, rec['confirmed']['demo_exit_without_patch'], rec['confirmed']['demo_exit_with_patch'], rec['confirmed']['suite_passes_with_patch']), flush=True)
        good = rec['confirmed']['demo_exit_without_patch'] == 0 and rec['confirmed']['demo_exit_with_patch'] not in (0,) and rec['confirmed']['suite_passes_with_patch']
        rec['kept'] = bool(good)
        if good:
            rec['checks'] = run_checks(wt, checks, tier)
            rec['what_i_ran'] = 'python3 -m vlib.seeded confirm %s <dir> --checks %s (worktree of /repo HEAD %s under /var/tmp, removed afterwards)' % (
                name, ','.join(checks), sh(['git', '-C', REPO, 'log', '-1', '--format=%h']).stdout.strip())
    finally:
        drop_worktree(wt)
    if rec.get('kept'):
        dst = os.path.join(SEEDED, name)
        os.makedirs(dst, exist_ok=True)
        shutil.copy(os.path.join(src, 'patch.diff'), dst)
        shutil.copy(os.path.join(src, 'demo.cpp'), dst)
        for extra in os.listdir(src):
            if extra.endswith('.h') or extra.endswith('.hpp'):
                shutil.copy(os.path.join(src, extra), dst)
            elif os.path.isdir(os.path.join(src, extra)) and extra in ('avr', 'stub'):
                shutil.copytree(os.path.join(src, extra), os.path.join(dst, extra), dirs_exist_ok=True)
        json.dump(rec, open(os.path.join(dst, 'meta.json'), 'w'), indent=1)
        print('  kept as seeded/%s' % name)
    else:
        print('  NOT kept: ' + json.dumps(rec['confirmed'])[:600])
    return rec


def run(names, checks, tier):
    names = names or sorted(os.listdir(SEEDED))
    table = []
    for n in names:
        d = os.path.join(SEEDED, n)
        meta = json.load(open(os.path.join(d, 'meta.json')))
        cs = checks or sorted(meta.get('checks', {}).keys()) or [meta['property']]
        wt = make_worktree(n)
        try:
            r = sh(['git', '-C', wt, 'apply', '--whitespace=nowarn', os.path.join(d, 'patch.diff')])
            if r.returncode:
                print('%s: patch no longer applies' % n); continue
            print('%s (%s): %s' % (n, meta['property'], meta.get('summary', '')[:100]), flush=True)
            res = run_checks(wt, cs, tier)
            meta.setdefault('checks', {}).update(res)
            json.dump(meta, open(os.path.join(d, 'meta.json'), 'w'), indent=1)
            table.append((n, meta['property'], {c: res[c]['detected'] for c in cs}))
        finally:
            drop_worktree(wt)
    print('\nsummary:')
    for n, p, r in table:
        print('  %-28s %s  %s' % (n, p, ' '.join('%s:%s' % (c, 'CAUGHT' if v else 'missed') for c, v in r.items())))


if __name__ == '__main__':
    ap = argparse.ArgumentParser()
    ap.add_argument('cmd', choices=['confirm', 'run', 'table'])
    ap.add_argument('args', nargs='*')
    ap.add_argument('--checks', default='')
    ap.add_argument('--tier', default='quick')
    a = ap.parse_args()
    checks = [c for c in a.checks.split(',') if c]
    if a.cmd == 'table':
        rows = ['| seeded change | property | what it needs to manifest | caught by (quick tier) | missed by |', '|---|---|---|---|---|']
        for n in sorted(os.listdir(SEEDED)):
            m = json.load(open(os.path.join(SEEDED, n, 'meta.json')))
            ck = m.get('checks', {})
            caught = [c for c, r in sorted(ck.items()) if r.get('detected')]
            missed = [c for c, r in sorted(ck.items()) if not r.get('detected')]
            rows.append('| `%s` | %s | %s | %s | %s |' % (n, m['property'], (m.get('needs') or m.get('summary', ''))[:220].replace('|', '/').replace('\n', ' '), ', '.join(caught) or '-', ', '.join(missed) or '-'))
        block = '\n'.join(rows)
        p = os.path.join(VERIF, 'DESIGN.md')
        t = open(p).read()
        b, e = '<!-- SEEDED-TABLE-BEGIN -->', '<!-- SEEDED-TABLE-END -->'
        t = t[:t.index(b) + len(b)] + '\n' + block + '\n' + t[t.index(e):]
        open(p, 'w').write(t)
        print(block)
    elif a.cmd == 'confirm':
        name, src = a.args[0], a.args[1]
        if not checks:
            checks = [json.load(open(os.path.join(src, 'meta.json')))['property']]
        confirm(name, src, checks, a.tier)
    else:
        run(a.args, checks, a.tier)
