"""Regenerate MANIFEST.json from the property table (python3 -m vlib.manifest)."""
import json, os, subprocess
from .core import VERIF, GUARD, REPO
from .props import PROPS

ALL = ['C%02d' % i for i in range(1, 21)]
NA_REASON = {}


def job_table():
    """Regenerate the job table of DESIGN.md section 5 from the property table."""
    rows = ['| property | job | driver:mode | flavour | configuration | quick | thorough |', '|---|---|---|---|---|---|---|']
    for pid in ALL:
        if pid not in PROPS:
            continue
        qj = {j.name: j for j in PROPS[pid]['jobs']('quick')}
        tj = {j.name: j for j in PROPS[pid]['jobs']('thorough')}
        for name in list(tj.keys()):
            j = tj[name]
            cfg = ' '.join('%s=%s' % (k.replace('ARDUINOJSON_', ''), v) for k, v in sorted(j.defines.items())) or 'default'
            if j.shim:
                cfg += ' +Arduino shim'
            qc = qj[name].count if name in qj else None
            rows.append('| %s | %s | %s:%s | %s | %s | %s | %s |' % (pid, name, j.driver, j.mode if name not in qj else qj[name].mode + ('' if qj[name].mode == j.mode else ' / ' + j.mode), j.flavour, cfg,
                                                            '-' if qc is None else (qc or 'all'), j.count or 'all'))
    p = os.path.join(VERIF, 'DESIGN.md')
    t = open(p).read()
    b, e = '<!-- JOB-TABLE-BEGIN -->', '<!-- JOB-TABLE-END -->'
    if b in t:
        t = t[:t.index(b) + len(b)] + '\n' + '\n'.join(rows) + '\n' + t[t.index(e):]
        open(p, 'w').write(t)


def main():
    hooks_commits = subprocess.run(['git', '-C', REPO, 'log', '--format=%H %s'], stdout=subprocess.PIPE, text=True).stdout.splitlines()
    hook_shas = [l.split()[0] for l in hooks_commits if 'verif hook' in l]
    m = dict(
        version=1,
        setup_cmd='./check --setup',
        hooks=dict(guard=GUARD,
                   enable='every driver is compiled from /repo/src with -D%s (vlib/core.py build())' % GUARD,
                   baseline_off_cmd='./check --baseline-off',
                   source_commits=hook_shas, add_only=True),
        engines=[dict(name='check', path='check', serves_properties=sorted(PROPS),
                      kind_free_text='python driver: content-addressed builds of C++ monitor drivers (g++ ASan+UBSan / TSan), 16 worker processes with per-case breadcrumbs, crash attribution, known-finding matching, evidence writer')],
        checks=[], not_applicable=[],
        notes='All checks are runtime monitors over generated executions of the real library; see DESIGN.md.')
    for pid in ALL:
        if pid in PROPS:
            P = PROPS[pid]
            m['checks'].append(dict(
                property_id=pid,
                quick_cmd='./check %s --tier quick' % pid,
                thorough_cmd='./check %s --tier thorough' % pid,
                evidence_file='evidence/%s.json' % pid,
                replay_cmd_template='./check %s --replay {path}' % pid,
                engine='check',
                level_claimed=dict(category=P['level'], text=P['level_text'], design_ref=P.get('design_ref', 'DESIGN.md section 5, ' + pid)),
                level_note=P['level_note'],
                technique=P['technique']))
        else:
            m['not_applicable'].append(dict(property_id=pid, reason=NA_REASON.get(pid, 'check not built yet (work in progress; DESIGN.md section 5 describes the planned monitor)')))
    job_table()
    with open(os.path.join(VERIF, 'MANIFEST.json'), 'w') as f:
        json.dump(m, f, indent=1)
    print('MANIFEST.json: %d checks, %d not_applicable' % (len(m['checks']), len(m['not_applicable'])))


if __name__ == '__main__':
    main()
