"""Build cache, worker pool with crash attribution, known-finding matching and
evidence writer for the ArduinoJson runtime-monitoring checks."""
import hashlib, json, os, re, shutil, signal, subprocess, sys, time
from concurrent.futures import ThreadPoolExecutor

VERIF = os.path.dirname(os.path.dirname(os.path.abspath(__file__)))
REPO = os.environ.get('VERIF_REPO', '/repo')
BUILD = os.path.join(VERIF, 'build')
CACHE = os.path.join(BUILD, 'cache')
HARNESS = os.path.join(VERIF, 'harness')
GUARD = 'BBLANCHON_ARDUINOJSON_VERIF'
NCPU = int(os.environ.get('VERIF_JOBS', '0')) or os.cpu_count() or 4
# evidence of runs against another tree (VERIF_REPO=<scratch worktree>: canaries, seeded changes) never lands in evidence/
SCRATCH_EVIDENCE = os.path.abspath(REPO) != '/repo'

FLAVOURS = {
    'asan': ['g++', '-std=gnu++17', '-O1', '-g', '-fno-omit-frame-pointer',
             '-fsanitize=address,undefined', '-fsanitize=float-cast-overflow,float-divide-by-zero',
             '-fno-sanitize-recover=all'],
    # same sanitizers, optimised harder: used where the workload is enumeration-heavy
    'asan2': ['g++', '-std=gnu++17', '-O2', '-g', '-fno-omit-frame-pointer',
              '-fsanitize=address,undefined', '-fsanitize=float-cast-overflow,float-divide-by-zero',
              '-fno-sanitize-recover=all'],
    'ubsan': ['g++', '-std=gnu++17', '-O2', '-g', '-fsanitize=undefined',
              '-fsanitize=float-cast-overflow,float-divide-by-zero', '-fno-sanitize-recover=all'],
    'tsan': ['g++', '-std=gnu++17', '-O1', '-g', '-fsanitize=thread', '-pthread'],
    'plain': ['g++', '-std=gnu++17', '-O2', '-g', '-pthread'],
    'fuzz': ['clang++-14', '-std=gnu++17', '-O1', '-g', '-fsanitize=fuzzer,address,undefined',
             '-fno-sanitize=object-size', '-fno-sanitize-recover=all'],
}

SAN_ENV = {
    'ASAN_OPTIONS': 'abort_on_error=0:halt_on_error=1:exitcode=99:detect_leaks=%(leaks)d:allocator_may_return_null=1:detect_stack_use_after_return=0:max_malloc_fill_size=4096:malloc_fill_byte=202:quarantine_size_mb=16',
    'UBSAN_OPTIONS': 'print_stacktrace=1:halt_on_error=1:exitcode=98',
    'TSAN_OPTIONS': 'halt_on_error=0:exitcode=0:second_deadlock_stack=1',
    'LSAN_OPTIONS': 'exitcode=97',
}


# valgrind memcheck on the uninstrumented build: definedness of every value that reaches a branch, an address or a
# system call (the compiler sanitizers installed here cannot see uninitialised reads; MSan needs an instrumented libstdc++)
WRAPPERS = {
    'memcheck': ['valgrind', '--tool=memcheck', '--quiet', '--error-exitcode=96', '--exit-on-first-error=yes',
                 '--leak-check=no', '--num-callers=16', '--undef-value-errors=yes', '--partial-loads-ok=yes'],
}


class HarnessError(Exception):
    pass


def _die_with_parent():
    """preexec_fn for workers: SIGKILL when the check process goes away (no orphaned sanitizer processes)."""
    try:
        import ctypes
        ctypes.CDLL('libc.so.6').prctl(1, 9)   # PR_SET_PDEATHSIG, SIGKILL
    except Exception:
        pass


def _hash_tree(h, root, exts=None):
    for d, dirs, files in sorted(os.walk(root)):
        dirs.sort()
        for f in sorted(files):
            if exts and not f.endswith(exts):
                continue
            p = os.path.join(d, f)
            h.update(os.path.relpath(p, root).encode())
            with open(p, 'rb') as fh:
                h.update(fh.read())


_src_hash_cache = None


def tree_hash():
    """sha256 of the library sources as they are NOW plus the harness sources."""
    global _src_hash_cache
    if _src_hash_cache is None:
        h = hashlib.sha256()
        _hash_tree(h, os.path.join(REPO, 'src'))
        _hash_tree(h, HARNESS)
        _src_hash_cache = h.hexdigest()
    return _src_hash_cache


def build(driver, flavour='asan', defines=None, shim=False, extra=None, quiet=True):
    """Compile harness/drivers/<driver>.cpp against /repo/src; content-addressed cache."""
    defines = dict(defines or {})
    flags = list(FLAVOURS[flavour])
    dflags = ['-D%s' % GUARD] + ['-D%s=%s' % (k, v) for k, v in sorted(defines.items())]
    if shim:
        dflags += ['-DVF_ARDUINO_SHIM', '-I' + os.path.join(HARNESS, 'shim')]
    if extra:
        flags += extra
    key = hashlib.sha256((tree_hash() + driver + ' '.join(flags + dflags)).encode()).hexdigest()[:24]
    outdir = os.path.join(CACHE, key)
    exe = os.path.join(outdir, driver)
    if os.path.exists(exe):
        os.utime(outdir, None)
        return exe
    os.makedirs(outdir, exist_ok=True)
    src = os.path.join(HARNESS, 'drivers', driver + '.cpp')
    tmp = exe + '.tmp%d' % os.getpid()
    cmd = flags + dflags + ['-I' + os.path.join(REPO, 'src'), src, '-o', tmp]
    t0 = time.time()
    p = subprocess.run(cmd, stdout=subprocess.PIPE, stderr=subprocess.STDOUT, text=True)
    if p.returncode != 0:
        sys.stderr.write(p.stdout[-6000:])
        shutil.rmtree(outdir, ignore_errors=True)
        raise HarnessError('compile failed: %s (%s)' % (driver, ' '.join(dflags)))
    os.replace(tmp, exe)
    with open(os.path.join(outdir, 'cmd.txt'), 'w') as f:
        f.write(' '.join(cmd) + '\n%.1fs\n' % (time.time() - t0))
    return exe


def prune_cache(keep=120):
    try:
        ents = [(os.path.getmtime(os.path.join(CACHE, e)), e) for e in os.listdir(CACHE)]
    except FileNotFoundError:
        return
    ents.sort(reverse=True)
    for _, e in ents[keep:]:
        shutil.rmtree(os.path.join(CACHE, e), ignore_errors=True)


def build_all(specs):
    """specs: list of dict(driver, flavour, defines, shim). Parallel compile (identical specs once). Returns exe paths."""
    uniq = {}
    for s in specs:
        uniq.setdefault(json.dumps(s, sort_keys=True), s)
    with ThreadPoolExecutor(max_workers=max(1, min(NCPU, 12))) as ex:
        futs = {k: ex.submit(build, s['driver'], s.get('flavour', 'asan'), s.get('defines'), s.get('shim', False), s.get('extra')) for k, s in uniq.items()}
        done = {k: f.result() for k, f in futs.items()}
    return [done[json.dumps(s, sort_keys=True)] for s in specs]


# ------------------------------------------------------------------ running

def san_env(leaks=False):
    env = dict(os.environ)
    for k, v in SAN_ENV.items():
        env[k] = v % {'leaks': 1 if leaks else 0} if '%(' in v else v
    return env


_SUMMARY_RE = re.compile(r'SUMMARY: (\w+Sanitizer): (.*)')
_RT_RE = re.compile(r'runtime error: (.*)')
_FRAME_RE = re.compile(r'#\d+ 0x[0-9a-f]+ in (.+?) (/\S+?):(\d+)')


_CTX_RE = re.compile(r'VF-CONTEXT: (.*)')
_VG_KIND_RE = re.compile(r'^==\d+== ((?:Conditional jump|Use of uninitialised|Invalid (?:read|write|free)|Syscall param|Mismatched free|Source and destination overlap|Argument .* of function|Jump to the invalid)[^\n]*)', re.M)
_VG_FRAME_RE = re.compile(r'^==\d+==\s+(?:at|by) 0x[0-9A-F]+: (.+?) \((?:in )?([^():]+)(?::\d+)?\)', re.M)


def crash_signature(stderr_text, rc):
    """Stable key for an abnormal exit: driver context marker (if any) + sanitizer kind + first library frame
    (function, file) without line numbers."""
    ctx = _CTX_RE.findall(stderr_text)
    prefix = (ctx[-1].strip() + ': ') if ctx and ctx[-1].strip() != 'none' else ''
    return prefix + _crash_signature(stderr_text, rc)


def _crash_signature(stderr_text, rc):
    kind = None
    m = _SUMMARY_RE.search(stderr_text)
    if m:
        kind = m.group(1) + ':' + m.group(2).split(' ')[0]
    rt = _RT_RE.search(stderr_text)
    if rt and (not kind or 'UndefinedBehavior' in kind):
        msg = re.sub(r'0x[0-9a-f]+', 'ADDR', rt.group(1))
        msg = re.sub(r'-?\d+(\.\d+)?(e[+-]?\d+)?', 'N', msg)
        kind = 'UBSan:' + msg[:80]
    vg = _VG_KIND_RE.search(stderr_text)
    if vg and not kind:
        kind = 'memcheck:' + re.sub(r'\d+', 'N', vg.group(1))[:70]
        for fm in _VG_FRAME_RE.finditer(stderr_text):
            fn, path = fm.group(1), fm.group(2)
            if fn.startswith('ArduinoJson') or 'ArduinoJson' in path:
                fn = re.sub(r'[(<].*', '', fn)
                return kind + ' at %s (%s)' % (fn.split('::')[-1], os.path.basename(path))
        return kind
    if not kind:
        if 'Assertion' in stderr_text and 'failed' in stderr_text:
            m2 = re.search(r"Assertion `(.*?)' failed", stderr_text)
            kind = 'assert:' + (m2.group(1) if m2 else '?')
        elif rc < 0:
            kind = 'signal:' + signal.Signals(-rc).name
        else:
            kind = 'exit:%d' % rc
    frame = ''
    for fm in _FRAME_RE.finditer(stderr_text):
        fn, path = fm.group(1), fm.group(2)
        if '/src/ArduinoJson/' in path:
            fn = re.sub(r'\(.*', '', fn)
            fn = re.sub(r'<.*', '', fn)
            frame = ' at %s (%s)' % (fn.split('::')[-1] if '::' in fn else fn, path.split('/src/ArduinoJson/')[1])
            break
    return kind + frame


class Job:
    """One (driver binary, mode, count) unit; fanned out over `workers` processes."""

    def __init__(self, name, driver, mode, count, flavour='asan', defines=None, shim=False, leaks=False,
                 timeout=900, single_timeout=120, workers=None, extra=None, max_crashes=25, wrapper=None):
        self.name, self.driver, self.mode, self.count = name, driver, mode, count
        self.flavour, self.defines, self.shim, self.leaks = flavour, dict(defines or {}), shim, leaks
        self.timeout, self.single_timeout, self.workers, self.extra = timeout, single_timeout, workers, extra
        self.max_crashes = max_crashes
        self.wrapper = WRAPPERS[wrapper] if wrapper else []   # e.g. 'memcheck': the plain binary under valgrind
        self.wrapper_name = wrapper
        self.exe = None

    def spec(self):
        return dict(driver=self.driver, flavour=self.flavour, defines=self.defines, shim=self.shim, extra=self.extra)

    def ident(self):
        d = dict(job=self.name, driver=self.driver, mode=self.mode, flavour=self.flavour, defines=self.defines, shim=self.shim)
        if self.wrapper_name:
            d['wrapper'] = self.wrapper_name
        return d


def run_single(job, seed, index, tier, timeout=None, verbose=True):
    """Run exactly one case in a fresh process. Returns (rc or 'timeout', stderr_text)."""
    cmd = job.wrapper + [job.exe, '--mode', job.mode, '--seed', str(seed), '--only', str(index), '--tier', str(tier)]
    try:
        p = subprocess.run(cmd, stdout=subprocess.PIPE, stderr=subprocess.PIPE, env=san_env(job.leaks),
                           timeout=timeout or job.single_timeout, errors='replace', text=True, preexec_fn=_die_with_parent)
        return p.returncode, p.stderr
    except subprocess.TimeoutExpired as e:
        err = e.stderr
        if isinstance(err, bytes):
            err = err.decode('utf8', 'replace')
        return 'timeout', err or ''


def run_job(job, seed, tier, workdir, log):
    """Run a job over its workers. Returns dict(summary..., violations=[...], inconclusive=[...])."""
    W = job.workers or NCPU
    total = job.count
    if total and total < W * 4 and not job.workers:
        W = max(1, total // 4) or 1
    if total:
        W = min(W, total)
    res = dict(evaluations=0, outcomes={}, counters={}, samples=[], setfiles={}, violations=[], inconclusive=[],
               sanitizer_reports=0, capped=False, internal_violations=0, records=[])
    tiern = 1 if tier == 'thorough' else 0
    os.makedirs(workdir, exist_ok=True)
    active = {}
    deadline = time.time() + job.timeout

    def launch(w, start, gen):
        out = os.path.join(workdir, 'w%d.g%d.jsonl' % (w, gen))
        crumb = os.path.join(workdir, 'w%d.crumb' % w)
        errp = os.path.join(workdir, 'w%d.g%d.err' % (w, gen))
        cmd = job.wrapper + [job.exe, '--mode', job.mode, '--seed', str(seed), '--count', str(total), '--worker', str(w),
               '--workers', str(W), '--start', str(start), '--out', out, '--crumb', crumb, '--tier', str(tiern)]
        ef = open(errp, 'w')
        p = subprocess.Popen(cmd, stdout=subprocess.DEVNULL, stderr=ef, env=san_env(job.leaks), preexec_fn=_die_with_parent)
        ef.close()
        active[w] = dict(p=p, out=out, crumb=crumb, err=errp, gen=gen, start=start)

    def read_crumb(path):
        try:
            with open(path) as f:
                return int(f.read().split()[0])
        except Exception:
            return None

    def collect(out):
        if not os.path.exists(out):
            return False
        got_summary = False
        with open(out, errors='replace') as f:
            for line in f:
                try:
                    d = json.loads(line)
                except Exception:
                    continue
                if d.get('t') == 'rec':
                    res['records'].append(d)
                elif d.get('t') == 'viol':
                    d.update(job.ident())
                    res['violations'].append(d)
                elif d.get('t') == 'summary':
                    got_summary = True
                    res['evaluations'] += d['evaluations']
                    res['internal_violations'] += d['violations']
                    for k, v in d['outcomes'].items():
                        res['outcomes'][k] = res['outcomes'].get(k, 0) + v
                    for k, v in d['counters'].items():
                        if k.startswith('max_'):
                            res['counters'][k] = max(res['counters'].get(k, 0), v)
                        else:
                            res['counters'][k] = res['counters'].get(k, 0) + v
                    for k, v in d['sets'].items():
                        res['setfiles'].setdefault(k, []).append(out + '.' + k + '.u64')
                        if v.get('capped'):
                            res['capped'] = True
                    if len(res['samples']) < 12:
                        res['samples'] += d['samples'][:3]
        return got_summary

    for w in range(W):
        launch(w, 0, 0)
    crashes = {}
    hangs = [0]
    while active:
        time.sleep(0.05)
        now = time.time()
        for w in list(active):
            a = active[w]
            rc = a['p'].poll()
            if rc is None and now <= deadline:
                # stall watchdog: the same case for longer than single_timeout (x1.5) means a hang (or a pathologically slow case):
                # decide it now instead of waiting for the job deadline
                cur = read_crumb(a['crumb'])
                if cur != a.get('last_idx'):
                    a['last_idx'], a['last_change'] = cur, now
                elif cur is not None and now - a.get('last_change', now) > job.single_timeout * 1.5:
                    a['p'].kill(); a['p'].wait()
                    collect(a['out'])
                    del active[w]
                    rc1, err1 = run_single(job, seed, cur, tiern)
                    if rc1 == 'timeout':
                        res['violations'].append(dict(job.ident(), index=cur, clause='hang', detail='case does not terminate within %ds when run alone' % job.single_timeout, witness='(see replay)'))
                        hangs[0] += 1
                        if hangs[0] >= 3:
                            # a job in which cases keep hanging is decided: stop it instead of timing out case after case
                            for w2 in list(active):
                                active[w2]['p'].kill(); active[w2]['p'].wait(); collect(active[w2]['out']); del active[w2]
                            res['inconclusive'].append('job %s stopped after %d hanging cases, its remaining cases were not run' % (job.name, hangs[0]))
                            break
                    elif rc1 not in (0, 1):
                        res['violations'].append(dict(job.ident(), index=cur, clause='crash', detail=crash_signature(err1, rc1), witness=err1[-2500:]))
                    else:
                        res['inconclusive'].append('job %s worker %d stalled at index %d for more than %ds (case terminates when run alone)' % (job.name, w, cur, int(job.single_timeout * 1.5)))
                    res['evaluations'] += max(0, (cur - a['start']) // W)
                    crashes[w] = crashes.get(w, 0) + (job.max_crashes // 2 + 1 if rc1 == 'timeout' else 1)   # two hangs end a worker
                    if crashes[w] >= job.max_crashes:
                        res['inconclusive'].append('job %s worker %d: too many crashing or hanging cases, remaining cases of this worker not run' % (job.name, w))
                    elif cur + 1 < total:
                        launch(w, cur + 1, a['gen'] + 1)
                    continue
            if rc is None:
                if now > deadline:
                    a['p'].kill(); a['p'].wait()
                    idx = read_crumb(a['crumb'])
                    del active[w]
                    if idx is None:
                        res['inconclusive'].append('job %s worker %d timed out before its first case' % (job.name, w))
                        continue
                    rc1, err1 = run_single(job, seed, idx, tiern)
                    if rc1 == 'timeout':
                        rc2, err2 = run_single(job, seed, idx, tiern, timeout=job.single_timeout * 2)
                        if rc2 == 'timeout':
                            v = dict(job.ident(), index=idx, clause='hang', detail='case does not terminate within %ds when run alone (twice)' % (job.single_timeout * 2), witness='(see replay)')
                            res['violations'].append(v)
                            continue
                    res['inconclusive'].append('job %s worker %d exceeded the %ds budget at index %d (case terminates when run alone)' % (job.name, w, job.timeout, idx))
                continue
            del active[w]
            if rc == 0:
                if not collect(a['out']):
                    res['inconclusive'].append('job %s worker %d exited 0 without a summary' % (job.name, w))
                continue
            # abnormal exit: attribute to the breadcrumbed case
            collect(a['out'])  # violations recorded before the crash (no summary => evaluations of this generation are lost, counted below)
            idx = read_crumb(a['crumb'])
            with open(a['err'], errors='replace') as f:
                errtxt = f.read()[-20000:]
            res['sanitizer_reports'] += 1
            if idx is None:
                res['inconclusive'].append('job %s worker %d died (rc=%s) before its first case: %s' % (job.name, w, rc, errtxt[-300:]))
                continue
            if rc == 97 and 'LeakSanitizer' in errtxt and 'AddressSanitizer:' not in errtxt.replace('LeakSanitizer', ''):
                # leak report at exit: whole-worker property, not one case
                v = dict(job.ident(), index=idx, clause='leak-at-exit', detail=crash_signature(errtxt, rc), witness=errtxt[-1500:],
                         range=[a['start'], idx], worker=w, workers=W)
                res['violations'].append(v)
                # the worker did finish its cases; its summary was written before exit
                continue
            rc1, err1 = run_single(job, seed, idx, tiern)
            if rc1 == 'timeout':
                v = dict(job.ident(), index=idx, clause='hang', detail='case does not terminate when run alone', witness=errtxt[-800:])
            elif rc1 not in (0, 1):
                v = dict(job.ident(), index=idx, clause='crash', detail=crash_signature(err1, rc1), witness=(err1[-2500:]))
            else:
                v = dict(job.ident(), index=idx, clause='crash-in-sequence', detail=crash_signature(errtxt, rc),
                         witness=errtxt[-2500:], range=[a['start'], idx], worker=w, workers=W)
            res['violations'].append(v)
            res['evaluations'] += max(0, (idx - a['start']) // W)
            crashes[w] = crashes.get(w, 0) + 1
            if crashes[w] >= job.max_crashes:
                res['inconclusive'].append('job %s worker %d: too many crashing cases, remaining cases of this worker not run' % (job.name, w))
                continue
            if idx + 1 < total:
                launch(w, idx + 1, a['gen'] + 1)
    return res


def merge_distinct(exe, files):
    files = [f for f in files if os.path.exists(f)]
    if not files:
        return 0
    p = subprocess.run([exe, '--merge-u64'] + files, stdout=subprocess.PIPE, text=True)
    try:
        return int(p.stdout.strip())
    except Exception:
        return 0


# ---------------------------------------------------------- known findings

def load_known():
    p = os.path.join(VERIF, 'known_findings.json')
    if not os.path.exists(p):
        return []
    with open(p) as f:
        d = json.load(f)
    return [e for e in d.get('findings', []) if e.get('status') == 'known']


def match_known(v, prop, known):
    text = (v.get('detail', '') + '\n' + v.get('witness', ''))
    for k in known:
        if k['property'] != prop:
            continue
        m = k['match']
        if 'mode' in m and not re.search(m['mode'], v.get('mode', '')):
            continue
        if 'clause' in m and not re.search(m['clause'], v.get('clause', '')):
            continue
        if 'detail' in m and not re.search(m['detail'], text, re.S):
            continue
        return k
    return None


def write_replay(prop, v, seed, tier):
    os.makedirs(os.path.join(VERIF, 'replays'), exist_ok=True)
    body = dict(property=prop, seed=seed, tier=tier, driver=v['driver'], mode=v['mode'], flavour=v['flavour'],
                defines=v['defines'], shim=v['shim'], index=v['index'], clause=v['clause'], detail=v.get('detail', ''),
                witness=v.get('witness', ''))
    for k in ('range', 'worker', 'workers', 'wrapper'):
        if k in v:
            body[k] = v[k]
    h = hashlib.sha256(json.dumps([body[k] for k in ('driver', 'mode', 'defines', 'index', 'clause', 'seed')], sort_keys=True).encode()).hexdigest()[:12]
    path = os.path.join(VERIF, 'replays', '%s-%s.json' % (prop, h))
    with open(path, 'w') as f:
        json.dump(body, f, indent=1)
    return path
