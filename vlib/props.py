"""Per-property job tables. Counts are cases, never seconds."""
from .core import Job

PROPS = {}

COMMON_ASSUME = [
    'g++ 12 ASan/UBSan red zones and checks (adjacent overflows, use-after-free within quarantine, UB the sanitizer instruments)',
    'verdict is about the executions produced by this run only',
]


def q(tier, quick, thorough):
    return thorough if tier == 'thorough' else quick


# ---------------------------------------------------------------- C07
def c07_jobs(tier):
    return [
        Job('rt-default', 'c07', 'rt', q(tier, 300000, 15000000), timeout=q(tier, 900, 7200)),
        Job('rt-float', 'c07', 'rt', q(tier, 100000, 6000000), timeout=q(tier, 900, 7200), defines={'ARDUINOJSON_USE_DOUBLE': 0}),
        Job('boundary32', 'c07', 'boundary32', q(tier, 2, 4), flavour='asan2', workers=q(tier, 2, 4), timeout=q(tier, 1800, 3600), single_timeout=1200),
        Job('rt-small', 'c07', 'rt', q(tier, 100000, 6000000), timeout=q(tier, 900, 7200), defines={'ARDUINOJSON_SLOT_ID_SIZE': 1, 'ARDUINOJSON_STRING_LENGTH_SIZE': 1, 'ARDUINOJSON_DEBUG': 1}),
    ]


PROPS['C07'] = dict(
    level='exploration',
    rule='random documents (gen_value: all scalar kinds at boundary values, strings over all byte values, NUL in strings and keys, '
         'chains up to depth 30) built through the API, then JSON round trip, MessagePack round trip + byte-identical re-serialization, '
         'and JSON->doc->MessagePack->doc; a case is non-trivial when the document has a non-empty container, a float, a 64-bit integer or a '
         'string needing escapes; distinct = distinct model hash',
    jobs=c07_jobs,
    min_evaluations=dict(quick=50000, thorough=1000000),
    technique='differential runtime monitoring: library serializer against library deserializer on generated documents under ASan+UBSan (and valgrind memcheck on the uninstrumented build), judged on values extracted through the public API',
    level_text='Exploration: every generated document is pushed through the three round trips of the statement and the extracted trees are compared (floats per C12, MessagePack bytes for identity); held on the documents observed, nothing more.',
    level_note='Trusts the extraction through is<T>/as<T>/iteration (itself checked against the model by C04) and the strict reference JSON parser used only to read back the float literals.',
    assumptions=COMMON_ASSUME + ['extraction through the public read API is faithful (cross-checked by C04)',
                                 'doubles that are exactly floats are printed with float accuracy by design (DESIGN.md don\'t-care 13)'],
)


# ---------------------------------------------------------------- C01
def c01_jobs(tier):
    return [
        Job('default', 'c01', 'gen', q(tier, 400000, 40000000), timeout=q(tier, 900, 7200)),
        Job('debug-small', 'c01', 'gen', q(tier, 100000, 10000000), timeout=q(tier, 900, 7200), defines={'ARDUINOJSON_SLOT_ID_SIZE': 2, 'ARDUINOJSON_STRING_LENGTH_SIZE': 1, 'ARDUINOJSON_DEBUG': 1, 'ARDUINOJSON_POOL_CAPACITY': 8}),
        Job('float', 'c01', 'gen', q(tier, 100000, 10000000), timeout=q(tier, 900, 7200), defines={'ARDUINOJSON_USE_DOUBLE': 0, 'ARDUINOJSON_SLOT_ID_SIZE': 4, 'ARDUINOJSON_STRING_LENGTH_SIZE': 4}),
        Job('memcheck', 'c01', 'gen', q(tier, 16000, 1000000), flavour='plain', wrapper='memcheck', timeout=q(tier, 900, 7200)),
    ]


PROPS['C01'] = dict(
    level='exploration',
    rule='constructive: a value is drawn (boundary integers, floats respelled as random RFC 8259 literals <= 63 chars, strings over valid UTF-8 incl. NUL and '
         'controls, keys from a small pool incl. empty/NUL/prefix/duplicate keys, chains up to depth 40), rendered with random RFC whitespace '
         '(also after a top-level scalar), random escape spelling (\\\\uXXXX any case, surrogate pairs, \\\\/), parsed into one of 8 destination states '
         '(fresh, dirty, shrunk, member proxy with sibling, element beyond end, JsonVariant) with the nesting limit at or above the depth; '
         'non-trivial = container, escape, float or repeated key; distinct = distinct text',
    jobs=c01_jobs,
    min_evaluations=dict(quick=400000, thorough=30000000),
    technique='constructive differential monitoring: reference renderer (value -> random RFC 8259 spelling) feeding deserializeJson under ASan+UBSan, result extracted through the public API and compared with the value the text was built from',
    level_text='Exploration: the denotation of every text is known by construction (no parser in the oracle); held on the texts and destination states observed.',
    level_note='Trusts the reference renderer (self-tested against CPython json in --setup) and glibc strtold for the value of float literals; tolerance per C12.',
    assumptions=COMMON_ASSUME + ['texts are at most a few kB; DECODE_UNICODE=1'],
    must_observe={'repeated keys': lambda agg, d: agg['counters'].get('texts_with_repeated_keys', 0) > 0},
)


# ---------------------------------------------------------------- C12
def c12_jobs(tier):
    return [
        Job('deser', 'c12', 'deser', q(tier, 600000, 40000000)),
        Job('str', 'c12', 'str', q(tier, 300000, 20000000)),
        Job('print-int', 'c12', 'print-int', q(tier, 8000, 400000)),
        Job('print-f32', 'c12', 'print-f32', q(tier, 6000, 0), flavour='asan2', timeout=q(tier, 900, 7200)),
        Job('print-f64', 'c12', 'print-f64', q(tier, 20000, 2000000), flavour='asan2'),
        Job('deser-float', 'c12', 'deser', q(tier, 100000, 5000000), defines={'ARDUINOJSON_USE_DOUBLE': 0}),
        # the number-token scanner has a separate character class in NaN / Infinity builds
        Job('deser-nan-inf', 'c12', 'deser', q(tier, 100000, 5000000), defines={'ARDUINOJSON_ENABLE_NAN': 1, 'ARDUINOJSON_ENABLE_INFINITY': 1, 'ARDUINOJSON_ENABLE_COMMENTS': 1}),
        Job('print-float-cfg', 'c12', 'print-f64', q(tier, 5000, 200000), defines={'ARDUINOJSON_USE_DOUBLE': 0}),
        # power-of-ten tables read through the flash-memory accessors (ARDUINOJSON_ENABLE_PROGMEM=1 with the faulting flash-pointer shim)
        Job('deser-progmem', 'c12', 'deser', q(tier, 60000, 3000000), shim=True),
        Job('print-progmem', 'c12', 'print-f64', q(tier, 6000, 300000), shim=True, flavour='asan2'),
        Job('print-thresholds', 'c12', 'print-f64', q(tier, 10000, 500000), flavour='asan2', defines={'ARDUINOJSON_POSITIVE_EXPONENTIATION_THRESHOLD': '1e3', 'ARDUINOJSON_NEGATIVE_EXPONENTIATION_THRESHOLD': '1e-2'}),
    ]


PROPS['C12'] = dict(
    level='exploration',
    rule='literal generator over the whole number grammar (sign, 0-40 leading zeros, up to 5000 integer/fraction digits, exponents -5000..5000 with '
         'compensating shifts, boundary integers around 2^7..2^64 and powers of ten) through deserializeJson (<= 63 chars) and through as<T>() on linked '
         'and copied string values of any length; printing: boundary-weighted integers, float bit patterns in blocks of 4096 scattered over the whole '
         '32-bit space (all 2^20 blocks in thorough = every float), doubles over every exponent; distinct = distinct literal / value / block',
    jobs=c12_jobs,
    exhaustive=lambda tier: False,
    min_evaluations=dict(quick=500000, thorough=20000000),
    technique='reference-oracle monitoring: generated literals and values run through the real parser/printer under ASan+UBSan and judged against glibc strtold (80-bit) and __int128 arithmetic with the tolerances of the statement',
    level_text='Exploration with a computed oracle: each literal is judged against its correctly rounded value and the stated tolerance; float printing is exhaustive over all 2^32 floats in the thorough tier, sampled in quick.',
    level_note='Trusts glibc strtold as correctly rounded reference (its own error, 5e-20 relative, is negligible against 1e-13) and the number grammar as implemented in the generator.',
    assumptions=COMMON_ASSUME + ['doubles exactly representable as float are printed with float accuracy by design (don\'t-care 13)',
                                 'USE_DOUBLE=0 jobs use 1e-5 instead of 1e-6/1e-13 (don\'t-care 14)'],
    extra_coverage={'floats_printed': lambda agg, d: agg['counters'].get('floats_printed', 0)},
)


# ---------------------------------------------------------------- C04
TINY = [
    {'ARDUINOJSON_POOL_CAPACITY': 2, 'ARDUINOJSON_INITIAL_POOL_COUNT': 1, 'ARDUINOJSON_SLOT_ID_SIZE': 2, 'ARDUINOJSON_DEBUG': 1},
    {'ARDUINOJSON_POOL_CAPACITY': 4, 'ARDUINOJSON_INITIAL_POOL_COUNT': 2, 'ARDUINOJSON_SLOT_ID_SIZE': 1},
]


def c04_jobs(tier):
    jobs = [
        Job('hist-default', 'c04', 'hist', q(tier, 30000, 600000), timeout=q(tier, 900, 10000)),
        Job('hist-tiny-pools', 'c04', 'hist', q(tier, 15000, 300000), defines=TINY[0], timeout=q(tier, 900, 10000)),
        Job('hist-1byte-ids', 'c04', 'hist', q(tier, 15000, 300000), defines=TINY[1], timeout=q(tier, 900, 10000)),
        Job('hist-no-long-long', 'c04', 'hist', q(tier, 6000, 150000), defines={'ARDUINOJSON_USE_LONG_LONG': 0, 'ARDUINOJSON_POOL_CAPACITY': 8}, timeout=q(tier, 900, 10000)),
        Job('hist-memcheck', 'c04', 'hist', q(tier, 1200, 40000), defines=TINY[0], flavour='plain', wrapper='memcheck', timeout=q(tier, 900, 10000), single_timeout=600),
        Job('small-tiny', 'c04', 'small%d' % q(tier, 4, 5), 0, defines=TINY[0], timeout=q(tier, 900, 20000)),
        Job('small-default', 'c04', 'small%d' % q(tier, 4, 5), 0, timeout=q(tier, 900, 20000)),
        Job('alias-probe', 'c04', 'alias', q(tier, 160, 3000), max_crashes=1000, timeout=q(tier, 900, 7200)),
        # trees deeper than any deserializer lets through (they only come from API calls): depth-dependent observables at 126..700 levels
        Job('deep-chains', 'c04', 'deep', q(tier, 1500, 60000), timeout=q(tier, 900, 7200)),
        # iterators held across insertions / removals of other elements, removal through a held iterator
        Job('held-iterators', 'c04', 'iters', q(tier, 20000, 1000000), timeout=q(tier, 900, 7200)),
        Job('held-iterators-tiny', 'c04', 'iters', q(tier, 8000, 300000), defines=TINY[0], timeout=q(tier, 900, 7200)),
        Job('deep-chains-small-ids', 'c04', 'deep', q(tier, 500, 20000), defines={'ARDUINOJSON_SLOT_ID_SIZE': 2, 'ARDUINOJSON_POOL_CAPACITY': 4, 'ARDUINOJSON_DEBUG': 1}, timeout=q(tier, 900, 7200)),
    ]
    if tier == 'thorough':
        jobs += [Job('small-1byte', 'c04', 'small5', 0, defines=TINY[1], timeout=20000)]
    jobs.append(Job('hist-float', 'c04', 'hist', q(tier, 4000, 100000), defines={'ARDUINOJSON_USE_DOUBLE': 0, 'ARDUINOJSON_STRING_LENGTH_SIZE': 1}, timeout=q(tier, 900, 10000)))
    return jobs


PROPS['C04'] = dict(
    level='exploration',
    rule='API histories generated from the model state (up to 3 documents, 6 live references, proxy chains up to depth 3 incl. insertion beyond the end, '
         'few keys and small indices so that slots are recycled; 23 operation kinds: typed set/add, to<T>, add<T>, remove by index/key/iterator, clear, '
         'value<-value copies between disjoint values and documents, document copy/move/swap/set/clear/shrinkToFit, deserializeJson/MsgPack into documents '
         'and nested values, read-only probes) of 10..1500 steps; plus ALL sequences of length <= L over a fixed 16-operation alphabet on tiny pool geometries; '
         'plus aliasing assignments (self / ancestor / descendant) as final step (known-finding probe); plus chains of 2..700 nested arrays / objects built through the API (depths around 127/128, 255/256, 511/512: nesting() at every level, size, traversal, three serializers and their measures, deep copies, cutting the chain). plus arrays / objects (root or nested) with up to 4 iterators HELD across appends, removals by index / key, in-place overwrites and removals through a held iterator (each held iterator must keep reading its element; remove(iterator) removes exactly it). After every step: every document and every live reference '
         'extracted through the public API == ordered-tree model, inspector invariants, and observation must neither call the allocator nor change the concrete state hash. '
         'non-trivial = history of >= 10 steps (distinct by operation log) or a systematic sequence',
    jobs=c04_jobs,
    exhaustive=lambda tier: False,
    min_evaluations=dict(quick=50000, thorough=1000000),
    technique='model-based runtime monitoring: generated API histories executed on the real library under ASan+UBSan (a slice also under valgrind memcheck), compared after every step with an executable ordered-tree model; structural invariants through a read-only inspector hook; small-scope enumeration used as workload',
    level_text='Exploration: long random histories plus bounded-exhaustive short histories on tiny pools, each step judged by the model and by structural invariants; the small-scope part is complete for its 16-operation alphabet and length bound.',
    level_note='The sequential model (DESIGN.md Appendix A) is itself a reading of the API; it agreed with the library on every non-aliasing history observed. Aliasing assignments are known findings.',
    assumptions=COMMON_ASSUME + ['references held across clear/shrinkToFit/deserialize/swap/move of their document are dropped (don\'t-care 8)',
                                 'the boolean result of a write through an unbound reference is not judged (don\'t-care 15)'],
    extra_coverage={'distinct_concrete_states': lambda agg, d: d.get('concrete_states', 0), 'distinct_model_states': lambda agg, d: d.get('model_states', 0),
                    'history_steps': lambda agg, d: agg['counters'].get('history_steps', 0),
                    'deep_levels_observed': lambda agg, d: agg['counters'].get('deep_levels_observed', 0),
                    'held_iterator_reads': lambda agg, d: agg['counters'].get('held_iterator_reads', 0),
                    'removals_through_held_iterators': lambda agg, d: agg['counters'].get('removals_through_held_iterators', 0),
                    'null_operand_probes': lambda agg, d: agg['counters'].get('null_operand_probes', 0)},
    must_observe={'live reference reads': lambda agg, d: agg['counters'].get('live_reference_reads', 0) > 0,
                  'deep chain levels': lambda agg, d: agg['counters'].get('deep_levels_observed', 0) > 0,
                  'held iterator reads': lambda agg, d: agg['counters'].get('held_iterator_reads', 0) > 0,
                  'removals through held iterators': lambda agg, d: agg['counters'].get('removals_through_held_iterators', 0) > 0,
                  'null operand probes': lambda agg, d: agg['counters'].get('null_operand_probes', 0) > 0,
                  'states with recycled slots': lambda agg, d: agg['counters'].get('states_with_free_slots', 0) > 0},
)


# ---------------------------------------------------------------- C05
def c05_jobs(tier):
    return [
        Job('hist-default', 'c05', 'hist', q(tier, 5000, 100000), leaks=True, timeout=q(tier, 900, 10000)),
        Job('hist-tiny-pools', 'c05', 'hist', q(tier, 3000, 60000), defines=TINY[0], leaks=True, timeout=q(tier, 900, 10000)),
        Job('hist-1byte-ids', 'c05', 'hist', q(tier, 3000, 60000), defines=TINY[1], leaks=True, timeout=q(tier, 900, 10000)),
        Job('deser-default', 'c05', 'deser', q(tier, 20000, 400000), leaks=True, timeout=q(tier, 900, 10000)),
        Job('deser-tiny-pools', 'c05', 'deser', q(tier, 15000, 300000), defines=TINY[0], leaks=True, timeout=q(tier, 900, 10000)),
        Job('memcheck-hist', 'c05', 'hist', q(tier, 160, 4000), defines=TINY[0], flavour='plain', wrapper='memcheck', timeout=q(tier, 900, 10000), single_timeout=600),
        Job('memcheck-deser', 'c05', 'deser', q(tier, 4000, 150000), flavour='plain', wrapper='memcheck', timeout=q(tier, 900, 10000), single_timeout=600),
    ]


PROPS['C05'] = dict(
    level='fault_enumeration',
    rule='scenario = alias-free API history (4..30 steps, 1-2 documents on one instrumented allocator) or one deserialization (JSON/MessagePack, optional filter, dirty destination). '
         'Each scenario is run fault-free to count N failable allocator calls (allocate + growing reallocate), then for EVERY k in 1..N (even sample of 60/120 positions above that): '
         'single failure at k, every call from k on failing, plus 4 random multi-failure subsets (5% and 30%). Per step: the operation during which null was returned must report '
         '(false / unbound / NoMemory) and set overflowed(); the document must stay a well-formed tree (inspector: no slot both linked and free, members have key+value) whose values '
         'outside the modified path equal the pre-state; removals stay exact. Then clear() -> ledger empty -> failures off -> 25 fresh steps must match the model -> destruction -> ledger empty. '
         'non-trivial = faulted run in which the injected failure was actually reached (distinct by scenario and schedule)',
    jobs=c05_jobs,
    min_evaluations=dict(quick=20000, thorough=500000),
    technique='fault injection at the allocator boundary with exhaustive failure positions per scenario; model-based monitor (pre/post extraction through the public API) plus inspector invariants, under ASan+UBSan+LSan (a slice also under valgrind memcheck)',
    level_text='Fault enumeration: failure positions are exhaustive per scenario (every failable allocator call), scenarios are sampled from the history and input generators.',
    level_note='Shrinking reallocations are never failed (the library, like the property, assumes they cannot fail). After a failure the model is resynchronised with the document (its content may legitimately be partial); only well-formedness and the untouched parts are judged until clear().',
    assumptions=COMMON_ASSUME + ['orphan string nodes (key saved, member slots not allocated) are tolerated until clear(): reference counts may exceed the users after a failure',
                                 'for syntactically invalid inputs any error code counts as reporting the failure'],
    extra_coverage={'faulted_runs': lambda agg, d: agg['counters'].get('faulted_runs', 0),
                    'faulted_runs_reaching_failure': lambda agg, d: agg['counters'].get('faulted_runs_reaching_failure', 0),
                    'scenarios': lambda agg, d: agg['counters'].get('scenarios', 0),
                    'scenarios_with_every_position_enumerated': lambda agg, d: agg['counters'].get('scenarios_with_every_position_enumerated', 0)},
    must_observe={'failures reached': lambda agg, d: agg['counters'].get('faulted_runs_reaching_failure', 0) > 0,
                  'runs continuing after a failure': lambda agg, d: agg['counters'].get('faulted_runs_continuing_after_failure', 0) > 0},
)


# ---------------------------------------------------------------- C02
def c02_jobs(tier):
    return [
        Job('default', 'c02', 'gen', q(tier, 60000, 2000000)),
        Job('arduino', 'c02', 'gen', q(tier, 30000, 800000), shim=True),
        # larger / odd staging buffers of the Arduino String writer (texts longer than the buffer are flushed in pieces)
        Job('arduino-buffer-300', 'c02', 'gen', q(tier, 15000, 400000), shim=True, defines={'ARDUINOJSON_STRING_BUFFER_SIZE': 300}),
        Job('arduino-buffer-7', 'c02', 'gen', q(tier, 10000, 200000), shim=True, defines={'ARDUINOJSON_STRING_BUFFER_SIZE': 7}),
        Job('float-small', 'c02', 'gen', q(tier, 20000, 600000), defines={'ARDUINOJSON_USE_DOUBLE': 0, 'ARDUINOJSON_STRING_LENGTH_SIZE': 1, 'ARDUINOJSON_SLOT_ID_SIZE': 1}),
        # other switch-over points between plain and exponent notation, tab indentation
        Job('thresholds-tab', 'c02', 'gen', q(tier, 20000, 600000), defines={'ARDUINOJSON_POSITIVE_EXPONENTIATION_THRESHOLD': '1e3', 'ARDUINOJSON_NEGATIVE_EXPONENTIATION_THRESHOLD': '1e-2', 'ARDUINOJSON_TAB': '"\\t"'}),
    ]


PROPS['C02'] = dict(
    level='exploration',
    rule='documents from gen_value (all scalar kinds at boundaries, NaN/inf, strings and keys over all 256 byte values incl. NUL and invalid UTF-8, raw JSON fragments, '
         'empty containers, chains up to depth 300) built through the API (3/4) or obtained by deserialization (1/4); compact and pretty; destinations: guarded char buffer '
         'of EVERY capacity 0..len+2 when len <= 160 (sampled above), char[N], std::string, std::ostream, custom writer, short-writing writer, Arduino String and Print (shim job); '
         'non-trivial = container, float, string or raw; distinct = distinct model hash',
    jobs=c02_jobs,
    min_evaluations=dict(quick=80000, thorough=2000000),
    technique='reference-oracle monitoring: output parsed by an independent strict RFC 8259 parser and rebuilt byte for byte from the model (float literals judged by tolerance, everything else exact); guarded buffers under ASan for every capacity',
    level_text='Exploration: every document is serialized to every destination kind; the full text is checked byte for byte against the reference rendering, the buffers against the prefix/NUL/no-outside-write rules.',
    level_note='The reference parser accepts unescaped control bytes inside strings because C17 fixes the serializer to pass them through (don\'t-care 12).',
    assumptions=COMMON_ASSUME + ['doubles exactly representable as float are printed with float accuracy by design (don\'t-care 13)'],
    extra_coverage={'buffer_capacities_checked': lambda agg, d: agg['counters'].get('buffer_capacities_checked', 0)},
    must_observe={'buffer capacities': lambda agg, d: agg['counters'].get('buffer_capacities_checked', 0) > 0,
                  'arduino destinations': lambda agg, d: agg['counters'].get('arduino_destinations_checked', 0) > 0},
)


# ---------------------------------------------------------------- C08
def c08_jobs(tier):
    return [
        Job('default', 'c08', 'gen', q(tier, 40000, 2000000), timeout=q(tier, 900, 7200)),
        Job('wide-lengths', 'c08', 'gen', q(tier, 15000, 800000), defines={'ARDUINOJSON_STRING_LENGTH_SIZE': 4}, shim=True, timeout=q(tier, 900, 7200)),
        Job('float-small', 'c08', 'gen', q(tier, 15000, 600000), defines={'ARDUINOJSON_USE_DOUBLE': 0, 'ARDUINOJSON_STRING_LENGTH_SIZE': 1, 'ARDUINOJSON_SLOT_ID_SIZE': 1}),
        # map16/map32 and array16/array32 header boundary (65535/65536/65537 members); one object costs about a minute to build
        Job('boundary32', 'c08', 'boundary32', q(tier, 4, 12), flavour='asan2', workers=q(tier, 4, 12), timeout=q(tier, 900, 3600), single_timeout=600),
    ]


PROPS['C08'] = dict(
    level='exploration',
    rule='1/3 boundary documents (string lengths 0,1,30..33,254..257,65534..65537; arrays/maps of 0,1,14..17,65535,65536 entries; bin/ext payloads around every header width; '
         'integers around every power of two; floats over all exponents, integral floats, -0, subnormals, NaN, inf), alone or nested; 2/3 random documents incl. bin/ext and raw MessagePack; '
         'all buffer capacities 0..len+2 for len <= 160 (sampled above), std::string, std::ostream, custom and short-writing writers, Print; distinct = distinct model hash',
    jobs=c08_jobs,
    min_evaluations=dict(quick=50000, thorough=2000000),
    technique='reference-oracle monitoring: output decoded by an independent strict MessagePack decoder written from the specification and compared with the model (integers by value and sign, floats bit-exact unless integral, bin/ext verbatim); guarded buffers under ASan',
    level_text='Exploration concentrated on every header-width boundary of the format; held on the documents observed.',
    level_note='Trusts the reference decoder (self-tested on the specification examples in --setup). Only semantic equality is demanded, not a particular (e.g. minimal) encoding.',
    assumptions=COMMON_ASSUME,
    extra_coverage={'buffer_capacities_checked': lambda agg, d: agg['counters'].get('buffer_capacities_checked', 0)},
)


# ---------------------------------------------------------------- C09
def c09_jobs(tier):
    fl = {'ARDUINOJSON_USE_DOUBLE': 0}
    return [
        Job('decode', 'c09', 'decode', q(tier, 400000, 20000000), timeout=q(tier, 900, 7200)),
        Job('prefix', 'c09', 'prefix', q(tier, 30000, 1500000), timeout=q(tier, 900, 7200)),
        Job('corrupt', 'c09', 'corrupt', q(tier, 50000, 3000000), timeout=q(tier, 900, 7200)),
        Job('decode-memcheck', 'c09', 'decode', q(tier, 10000, 500000), flavour='plain', wrapper='memcheck', timeout=q(tier, 900, 7200), single_timeout=600),
        Job('corrupt-memcheck', 'c09', 'corrupt', q(tier, 4000, 200000), flavour='plain', wrapper='memcheck', timeout=q(tier, 900, 7200), single_timeout=600),
        Job('decode-float', 'c09', 'decode', q(tier, 60000, 2000000), defines=fl),
        Job('decode-short-lengths', 'c09', 'decode', q(tier, 40000, 1500000), defines={'ARDUINOJSON_STRING_LENGTH_SIZE': 1}),
        Job('decode-no-long-long', 'c09', 'decode', q(tier, 60000, 2000000), defines={'ARDUINOJSON_USE_LONG_LONG': 0}),
        Job('prefix-small', 'c09', 'prefix', q(tier, 5000, 200000), defines={'ARDUINOJSON_STRING_LENGTH_SIZE': 1, 'ARDUINOJSON_SLOT_ID_SIZE': 1, 'ARDUINOJSON_DEBUG': 1}),
        Job('corrupt-wide', 'c09', 'corrupt', q(tier, 8000, 300000), defines={'ARDUINOJSON_STRING_LENGTH_SIZE': 4}),
    ]


PROPS['C09'] = dict(
    level='exploration',
    rule='values from gen_value (all kinds incl. bin/ext, NaN/inf, duplicate keys, chains to depth 60) encoded by an independent encoder with random LEGAL width choices '
         '(non-minimal int and length families, f32/f64, fix/8/16/32, all ext forms); modes: decode (value, order, bin/ext re-serialized byte for byte), prefix (EVERY proper prefix of '
         'objects <= 300 bytes, 45 sampled above: IncompleteInput, EmptyInput for length 0), corrupt (24 single-byte corruptions per object, classified by the reference decoder\'s first error); '
         'distinct = distinct encoded object',
    jobs=c09_jobs,
    min_evaluations=dict(quick=150000, thorough=5000000),
    technique='reference-oracle monitoring: independent MessagePack encoder/decoder written from the specification drive deserializeMsgPack under ASan+UBSan (a slice also under valgrind memcheck); results extracted through the public API',
    level_text='Exploration: constructive for well-formed inputs (the encoded value is known), exhaustive over prefixes of each small object, sampled over corruptions.',
    level_note='For corrupted inputs NoMemory is accepted where a corrupted length/count exceeds the configured capacity; USE_DOUBLE=0 accepts either neighbouring float (don\'t-care 11).',
    assumptions=COMMON_ASSUME,
    extra_coverage={'prefixes_checked': lambda agg, d: agg['counters'].get('prefixes_checked', 0), 'corruptions_checked': lambda agg, d: agg['counters'].get('corruptions_checked', 0)},
    must_observe={'prefixes': lambda agg, d: agg['counters'].get('prefixes_checked', 0) > 0, 'bin/ext reserialization': lambda agg, d: agg['counters'].get('binext_reserialized', 0) > 0},
)


# ---------------------------------------------------------------- C03
C03_CFGS = [
    {'ARDUINOJSON_SLOT_ID_SIZE': 1, 'ARDUINOJSON_STRING_LENGTH_SIZE': 1, 'ARDUINOJSON_ENABLE_COMMENTS': 1, 'ARDUINOJSON_DEBUG': 1},
    {'ARDUINOJSON_SLOT_ID_SIZE': 2, 'ARDUINOJSON_STRING_LENGTH_SIZE': 4, 'ARDUINOJSON_ENABLE_NAN': 1, 'ARDUINOJSON_ENABLE_INFINITY': 1, 'ARDUINOJSON_DECODE_UNICODE': 0, 'ARDUINOJSON_AUTO_SHRINK': 0},
    {'ARDUINOJSON_SLOT_ID_SIZE': 4, 'ARDUINOJSON_STRING_LENGTH_SIZE': 2, 'ARDUINOJSON_ENABLE_COMMENTS': 1, 'ARDUINOJSON_ENABLE_NAN': 1, 'ARDUINOJSON_DEBUG': 1, 'ARDUINOJSON_POOL_CAPACITY': 4},
    {'ARDUINOJSON_SLOT_ID_SIZE': 1, 'ARDUINOJSON_STRING_LENGTH_SIZE': 2, 'ARDUINOJSON_ENABLE_INFINITY': 1, 'ARDUINOJSON_DECODE_UNICODE': 0, 'ARDUINOJSON_ENABLE_COMMENTS': 1},
    {'ARDUINOJSON_SLOT_ID_SIZE': 2, 'ARDUINOJSON_STRING_LENGTH_SIZE': 1, 'ARDUINOJSON_ENABLE_NAN': 1, 'ARDUINOJSON_DEBUG': 1, 'ARDUINOJSON_USE_DOUBLE': 0},
    {'ARDUINOJSON_SLOT_ID_SIZE': 4, 'ARDUINOJSON_STRING_LENGTH_SIZE': 4, 'ARDUINOJSON_ENABLE_COMMENTS': 1, 'ARDUINOJSON_ENABLE_NAN': 1, 'ARDUINOJSON_ENABLE_INFINITY': 1, 'ARDUINOJSON_DEBUG': 1},
]


def c03_jobs(tier):
    jobs = [
        Job('json-default', 'c03', 'json', q(tier, 40000, 2000000), shim=True, timeout=q(tier, 900, 10000)),
        Job('msgpack-default', 'c03', 'msgpack', q(tier, 40000, 2000000), shim=True, timeout=q(tier, 900, 10000)),
        Job('json-memcheck', 'c03', 'json', q(tier, 8000, 400000), shim=True, flavour='plain', wrapper='memcheck', timeout=q(tier, 900, 10000), single_timeout=600),
        Job('msgpack-memcheck', 'c03', 'msgpack', q(tier, 8000, 400000), shim=True, flavour='plain', wrapper='memcheck', timeout=q(tier, 900, 10000), single_timeout=600),
    ]
    cfgs = C03_CFGS[:2] if tier == 'quick' else C03_CFGS
    for i, cfg in enumerate(cfgs):
        jobs.append(Job('json-cfg%d' % i, 'c03', 'json', q(tier, 15000, 500000), defines=cfg, shim=(i % 2 == 0), timeout=q(tier, 900, 10000)))
        jobs.append(Job('msgpack-cfg%d' % i, 'c03', 'msgpack', q(tier, 15000, 500000), defines=cfg, shim=(i % 2 == 0), timeout=q(tier, 900, 10000)))
    return jobs


PROPS['C03'] = dict(
    level='exploration',
    rule='inputs: valid texts/objects (generators of C01/C09, chains to depth 300), random prefixes, structure-aware mutations (byte flips, deletions, duplications, NUL insertion, '
         'bracket flips, token deletion, escape/comment/NaN fragments, length-field corruption), random bytes, MessagePack headers announcing 2^32-1 with short bodies; x nesting limits '
         '{0,1,2,10,254,255,random} x random filter documents (1/3). Each input is run through the sized-pointer kind and 4 (6 thorough) of 13 input kinds, each from its own exactly sized '
         'heap copy freed right after the call; checked: code in enum, inspector invariants, traversal, serializeJson/MsgPack, clear(), reuse, same (code, document) as the sized-pointer run '
         'on the effective bytes, counting readers never called after they reported the end; distinct = distinct (bytes, limit, filter)',
    jobs=c03_jobs,
    min_evaluations=dict(quick=100000, thorough=4000000),
    technique='sanitizer-monitored hostile-input execution (g++ ASan+UBSan, exact-size input blocks, flash-pointer shim that faults on direct dereference; valgrind memcheck on the uninstrumented build for uninitialised reads) with a differential source-independence oracle across 13 input kinds and counting readers',
    level_text='Exploration: memory safety and source independence on generated hostile inputs; termination is observed (watchdog), not proved.',
    level_note='Red zones miss far over-reads; mitigated by one exact block per input kind and by counting readers/streams, which are exact. A finite heap (64 MB per request) is emulated so that corrupted length fields cannot exhaust the sandbox.',
    assumptions=COMMON_ASSUME,
    must_observe={'counting readers': lambda agg, d: agg['counters'].get('counted_reads', 0) > 0},
)


# ---------------------------------------------------------------- C06
def c06_jobs(tier):
    return [
        Job('ledger-default', 'c04', 'c06hist', q(tier, 20000, 500000), leaks=True, timeout=q(tier, 900, 10000)),
        Job('ledger-tiny-pools', 'c04', 'c06hist', q(tier, 12000, 300000), defines=TINY[0], leaks=True, timeout=q(tier, 900, 10000)),
        Job('ledger-1byte-ids', 'c04', 'c06hist', q(tier, 12000, 300000), defines=TINY[1], leaks=True, timeout=q(tier, 900, 10000)),
        # doubles are then the only values kept in extension slots (long is 64-bit here, the library stores 32-bit integers)
        Job('ledger-no-long-long', 'c04', 'c06hist', q(tier, 8000, 200000), defines={'ARDUINOJSON_USE_LONG_LONG': 0, 'ARDUINOJSON_POOL_CAPACITY': 8}, leaks=True, timeout=q(tier, 900, 10000)),
        Job('deser-bound', 'c03', 'bound', q(tier, 60000, 3000000), timeout=q(tier, 900, 10000)),
        Job('deser-bound-wide', 'c03', 'bound', q(tier, 30000, 1000000), defines={'ARDUINOJSON_STRING_LENGTH_SIZE': 4, 'ARDUINOJSON_POOL_CAPACITY': 4}, timeout=q(tier, 900, 10000)),
        Job('deser-bound-no-shrink', 'c03', 'bound', q(tier, 20000, 600000), defines={'ARDUINOJSON_AUTO_SHRINK': 0, 'ARDUINOJSON_POOL_CAPACITY': 16}, timeout=q(tier, 900, 10000)),
    ]


PROPS['C06'] = dict(
    level='exploration',
    rule='the API histories of C04 (documents each on its own instrumented allocator; copy/move/swap exchange allocators) with an online ledger: deallocate/reallocate of a pointer not live in '
         'that allocator, blocks live after doc.clear() (when no other document shares the allocator) or after destruction, any allocator call during read-only observation; after every step the inspector '
         'checks: a pool was added only when the free list was exhausted, no fresh slot taken while released slots exist, string reference counts == users, no orphan or duplicate copied string; '
         'LeakSanitizer at exit covers documents that fell back to the default allocator (moved-from). Plus deserialization of hostile inputs incl. headers announcing 2^32-1 through a counting reader: '
         'bytes requested <= sizeofString(max) + 16 KiB + 256 x bytes consumed, and no single request sized by a header. distinct = distinct history / input',
    jobs=c06_jobs,
    min_evaluations=dict(quick=80000, thorough=3000000),
    technique='online monitor over allocator events (instrumented ArduinoJson::Allocator with live-block ledger, exact-size blocks under ASan, LSan at exit) plus inspector-based slot-reuse and string-sharing predicates evaluated around every history step',
    level_text='Exploration: the ledger and reuse predicates are exact for the executions observed; the memory bound uses deliberately generous constants (it catches allocation sized by an announced length, not constant factors).',
    level_note='Read-only operations are the observation phase of the C04 monitor (is/as/iteration/size/nesting/serialize/measure/compare).',
    assumptions=COMMON_ASSUME + ['MsgPackBinary/MsgPackExtension blobs are exempt from the stored-once rule (don\'t-care 10)'],
    extra_coverage={'allocator_events': lambda agg, d: agg['counters'].get('allocator_events', 0),
                    'slot_reuse_checks': lambda agg, d: agg['counters'].get('slot_reuse_checks', 0),
                    'free_slot_reuses_observed': lambda agg, d: agg['counters'].get('free_slot_reuses_observed', 0),
                    'pool_additions_observed': lambda agg, d: agg['counters'].get('pool_additions_observed', 0)},
    must_observe={'allocator events': lambda agg, d: agg['counters'].get('allocator_events', 0) > 1000,
                  'free slot reuse': lambda agg, d: agg['counters'].get('free_slot_reuses_observed', 0) > 0,
                  'pool additions': lambda agg, d: agg['counters'].get('pool_additions_observed', 0) > 0,
                  'clear ledger checks': lambda agg, d: agg['counters'].get('clear_ledger_checks', 0) > 0},
)


# ---------------------------------------------------------------- C16
def c16_jobs(tier):
    return [
        Job('json', 'c16', 'json', q(tier, 150000, 8000000), shim=True, timeout=q(tier, 900, 7200)),
        Job('msgpack', 'c16', 'msgpack', q(tier, 150000, 8000000), shim=True, timeout=q(tier, 900, 7200)),
        Job('json-small-debug', 'c16', 'json', q(tier, 20000, 1000000), defines={'ARDUINOJSON_SLOT_ID_SIZE': 1, 'ARDUINOJSON_STRING_LENGTH_SIZE': 1, 'ARDUINOJSON_DEBUG': 1}),
    ]


PROPS['C16'] = dict(
    level='exploration',
    rule='streams of 1..6 documents written back to back: JSON with every top-level kind (objects, arrays, strings, literals, numbers), no separator where unambiguous, '
         'space / LF / CRLF / tab / blank lines otherwise (numbers always followed by whitespace or the end), MessagePack objects with random legal widths; read through a counting custom reader, '
         'std::istream over a chunking streambuf (chunks 1,2,3,7,64) and an Arduino Stream; per call: returned document == i-th document, stream position == end of the document '
         '(end or end+1 for a number), EmptyInput after the last one; the same prefix with a random continuation must give the same (code, document, position); distinct = distinct stream',
    jobs=c16_jobs,
    min_evaluations=dict(quick=100000, thorough=5000000),
    technique='constructive stream workload with counting readers (exact byte positions) under ASan+UBSan; continuation-independence checked differentially',
    level_text='Exploration: positions are exact (the readers count), documents are known by construction.',
    level_note='A top-level number directly followed by a non-whitespace byte is outside the workload (don\'t-care 1).',
    assumptions=COMMON_ASSUME,
    extra_coverage={'calls': lambda agg, d: agg['counters'].get('calls', 0), 'continuations_checked': lambda agg, d: agg['counters'].get('continuations_checked', 0)},
    must_observe={'calls': lambda agg, d: agg['counters'].get('calls', 0) > 0, 'numbers consuming one more byte': lambda agg, d: agg['counters'].get('numbers_consuming_one_more_byte', 0) > 0},
)


# ---------------------------------------------------------------- C15
def c15_jobs(tier):
    jobs = [
        Job('grid', 'c15', 'grid', 0, timeout=q(tier, 900, 3600)),
        Job('grid-debug-small', 'c15', 'grid', 0, defines={'ARDUINOJSON_DEBUG': 1, 'ARDUINOJSON_SLOT_ID_SIZE': 2, 'ARDUINOJSON_POOL_CAPACITY': 8}, timeout=q(tier, 900, 3600)),
    ]
    # calls without a NestingLimit option, in builds with different ARDUINOJSON_DEFAULT_NESTING_LIMIT
    jobs.append(Job('default-limit', 'c15', 'default', 0, workers=4))
    for n in ([3, 255] if tier == 'quick' else [0, 1, 3, 50, 255]):
        jobs.append(Job('default-limit-%d' % n, 'c15', 'default', 0, workers=4, defines={'ARDUINOJSON_DEFAULT_NESTING_LIMIT': n}))
    if tier == 'thorough':
        jobs.append(Job('grid-O2', 'c15', 'grid', 0, flavour='asan2', timeout=3600))
        jobs.append(Job('grid-comments', 'c15', 'grid', 0, defines={'ARDUINOJSON_ENABLE_COMMENTS': 1, 'ARDUINOJSON_ENABLE_NAN': 1}, timeout=3600))
    return jobs


PROPS['C15'] = dict(
    level='exploration',
    rule='EVERY limit L in 0..255 x 21 shapes (JSON arrays, objects, alternating, inside a member discarded by a filter, arrays not admitted by an object filter, with whitespace, single-quoted keys, objects under a repeated key, nested container after/between siblings; '
         'MessagePack fixarray/array16/array32/fixmap/map16/map32, arrays inside a discarded member, fixmap under a repeated key, nested container between siblings) x depths {L-1, L, L+1, L+2} closed, L unclosed, 5000 and 20000 openings: returned code, nesting(), '
         'and stack depth measured inside the reader (same build, same limit: thousands of openings must not use more stack than L+1..2 openings; half depth not more than the limit depth). '
         'The classification of TooDeep against earlier syntax errors on arbitrary inputs is checked by C10 (JSON) and C09 (MessagePack). distinct = (limit, shape)',
    jobs=c15_jobs,
    exhaustive=lambda tier: True,
    min_evaluations=dict(quick=10000, thorough=20000),
    technique='exhaustive grid of limits and nesting shapes executed under ASan+UBSan with an in-process stack probe (lowest stack address seen by a custom reader), compared between two executions of the same build',
    level_text='Exploration, complete for its grid (all 256 limits x 21 shapes x 8 depths, plus the 21 shapes without a NestingLimit option in builds with other ARDUINOJSON_DEFAULT_NESTING_LIMIT values); stack bound checked relatively, never against calibrated constants.',
    level_note='Absolute stack size depends on the compiler and is not judged.',
    assumptions=COMMON_ASSUME,
    extra_coverage={'grid_calls': lambda agg, d: agg['counters'].get('grid_calls', 0), 'stack_comparisons': lambda agg, d: agg['counters'].get('stack_comparisons', 0)},
    must_observe={'stack comparisons': lambda agg, d: agg['counters'].get('stack_comparisons', 0) > 0},
)


# ---------------------------------------------------------------- C10
def c10_cfgs(tier):
    base = [{}, {'ARDUINOJSON_ENABLE_COMMENTS': 1}, {'ARDUINOJSON_ENABLE_NAN': 1, 'ARDUINOJSON_ENABLE_INFINITY': 1, 'ARDUINOJSON_DECODE_UNICODE': 0}]
    if tier == 'quick':
        return base
    out = []
    for m in range(16):
        out.append({'ARDUINOJSON_ENABLE_COMMENTS': m & 1, 'ARDUINOJSON_ENABLE_NAN': (m >> 1) & 1, 'ARDUINOJSON_ENABLE_INFINITY': (m >> 2) & 1, 'ARDUINOJSON_DECODE_UNICODE': (m >> 3) & 1})
    return out


def c10_jobs(tier):
    jobs = []
    for i, cfg in enumerate(c10_cfgs(tier)):
        L = q(tier, 4 if i else 5, 5 if i else 6)
        jobs.append(Job('tokens-cfg%d' % i, 'c10', 'tokens%d' % L, 0, defines=cfg, flavour='asan2', timeout=q(tier, 900, 14400)))
        jobs.append(Job('texts-cfg%d' % i, 'c10', 'texts', q(tier, 60000, 1000000), defines=cfg, timeout=q(tier, 900, 7200)))
        jobs.append(Job('hex-cfg%d' % i, 'c10', 'hex', 0, defines=cfg))
        jobs.append(Job('keywords-cfg%d' % i, 'c10', 'keywords', 0, defines=cfg))
    jobs.append(Job('texts-shortstrings', 'c10', 'texts', q(tier, 30000, 500000), defines={'ARDUINOJSON_STRING_LENGTH_SIZE': 1, 'ARDUINOJSON_ENABLE_COMMENTS': 1, 'ARDUINOJSON_DEBUG': 1}))
    return jobs


PROPS['C10'] = dict(
    level='exploration',
    rule='(1) ALL sequences up to length L (quick 5 default config / 4 others; thorough 6 / 5) over an 18-token alphabet ({ } [ ] , : "s\\\\u0041" \'q\' k_1 1 -1.5e2 true false null ws //c /*c*/ #), '
         'each also with the end of input inside its last token and, for a quarter, under nesting limits 0..2; (2) texts from the C03 generator (valid, truncated, mutated, random) with single-quote, comment and '
         'lenient-number substitutions under limits {0,1,2,3,10,50,255}; (3) every byte value in every digit position of \\\\uXXXX; (4) true / false / null with every byte value at every position and every subset of letters in the other case, in five contexts. Each input is judged by a three-valued recogniser of the documented dialect '
         '(must-Ok with value / must-fail with allowed codes at the first offending position / don\'t-care); builds for COMMENTS, NAN, INFINITY, DECODE_UNICODE (3 in quick, all 16 in thorough); distinct = distinct input',
    jobs=c10_jobs,
    exhaustive=lambda tier: False,
    min_evaluations=dict(quick=2000000, thorough=30000000),
    technique='reference-recogniser monitoring: an independent explicit lexer + LL(1) recogniser of the documented dialect classifies every generated input; the library\'s (code, value) is compared under ASan+UBSan; token sequences enumerated exhaustively as workload',
    level_text='Exploration; the token-sequence part is complete for its alphabet and length bound.',
    level_note='The recogniser is itself a reading of the documentation; disagreements were triaged (DESIGN.md section 7). Don\'t-cares: top-level number followed by a non-whitespace byte, malformed number at the very end of the input (Invalid or Incomplete), unpaired surrogates (content), number tokens over 63 characters, backquote in unquoted keys.',
    assumptions=COMMON_ASSUME,
    extra_coverage={'inputs_judged': lambda agg, d: agg['counters'].get('inputs_judged', 0)},
)


# ---------------------------------------------------------------- C11
def c11_jobs(tier):
    return [
        Job('json', 'c11', 'json', q(tier, 250000, 15000000), timeout=q(tier, 900, 7200)),
        Job('msgpack', 'c11', 'msgpack', q(tier, 250000, 15000000), timeout=q(tier, 900, 7200)),
        Job('json-tiny', 'c11', 'json', q(tier, 30000, 1000000), defines={'ARDUINOJSON_POOL_CAPACITY': 4, 'ARDUINOJSON_SLOT_ID_SIZE': 2, 'ARDUINOJSON_DEBUG': 1, 'ARDUINOJSON_ENABLE_COMMENTS': 1}),
        Job('msgpack-tiny', 'c11', 'msgpack', q(tier, 30000, 1000000), defines={'ARDUINOJSON_POOL_CAPACITY': 4, 'ARDUINOJSON_SLOT_ID_SIZE': 2, 'ARDUINOJSON_DEBUG': 1}),
        # skip routines that depend on the configured number types and on the string-length width
        Job('msgpack-float', 'c11', 'msgpack', q(tier, 60000, 2000000), defines={'ARDUINOJSON_USE_DOUBLE': 0, 'ARDUINOJSON_STRING_LENGTH_SIZE': 1}),
        Job('json-float', 'c11', 'json', q(tier, 30000, 1000000), defines={'ARDUINOJSON_USE_DOUBLE': 0, 'ARDUINOJSON_ENABLE_NAN': 1, 'ARDUINOJSON_ENABLE_INFINITY': 1}),
        Job('msgpack-no-long-long', 'c11', 'msgpack', q(tier, 30000, 1000000), defines={'ARDUINOJSON_USE_LONG_LONG': 0, 'ARDUINOJSON_STRING_LENGTH_SIZE': 4}),
    ]


PROPS['C11'] = dict(
    level='exploration',
    rule='pairs (input, filter): inputs 3/4 valid (JSON texts / MessagePack objects incl. duplicate keys, NUL in keys, bin/ext), 1/4 truncated/mutated/random; filters = random documents '
         '(true/false/null/numbers/strings, nested objects and arrays, "*" wildcards, empty containers) biased towards mismatching shapes (object filter over arrays, array filter over objects, '
         'wildcard wrappers, deep filters over shallow inputs), passed as JsonVariantConst, as JsonDocument& and with a std::string input. Oracle: project(unfiltered result, filter) written from the statement; '
         'Filter(true) identity (code and document) on every input; peak live bytes of the filtered run <= unfiltered run (total bytes requested within 12.5% + 256) when the unfiltered run is Ok; inspector invariants; distinct = distinct (input, filter)',
    jobs=c11_jobs,
    min_evaluations=dict(quick=200000, thorough=10000000),
    technique='differential monitoring: filtered run against an executable projection of the library\'s own unfiltered result, plus allocator-ledger comparison of the two runs, under ASan+UBSan',
    level_text='Exploration over generated (input, filter) pairs; equality of results for accepted inputs, safety and memory for all.',
    level_note='Not judged: the number 1 as filter entry (it compares equal to true), an explicit null entry next to a "*" member (the wildcard applies), memory on inputs the unfiltered run rejects (the filtered run may legitimately read further because discarded parts are skipped, not parsed).',
    assumptions=COMMON_ASSUME,
    extra_coverage={'accepted_inputs': lambda agg, d: agg['counters'].get('accepted_inputs', 0), 'projections_that_removed_something': lambda agg, d: agg['counters'].get('projections_that_removed_something', 0)},
    must_observe={'projections removing something': lambda agg, d: agg['counters'].get('projections_that_removed_something', 0) > 0},
)


# ---------------------------------------------------------------- C13
def c13_jobs(tier):
    return [
        Job('store32', 'c13', 'store32', q(tier, 3 * 600, 0), flavour='asan2', timeout=q(tier, 900, 14400)),
        Job('store64', 'c13', 'store64', q(tier, 6000, 400000), flavour='asan2'),
        Job('strings', 'c13', 'strings', q(tier, 200000, 10000000)),
        Job('copyarray', 'c13', 'copyarray', q(tier, 40000, 2000000)),
        Job('store64-float', 'c13', 'store64', q(tier, 2000, 100000), flavour='asan2', defines={'ARDUINOJSON_USE_DOUBLE': 0}),
    ]


PROPS['C13'] = dict(
    level='exploration',
    rule='stored kinds int32 / uint32 / float: bit patterns in blocks of 65536 scattered over the whole 32-bit space (quick: 1800 blocks = 1.2e8 values; thorough: ALL 3 x 2^32) x 12 target types '
         '(int8..int64, uint8..uint64, long, unsigned long, float, double): as<T>(), is<T>(), operator| default; 64-bit kinds: values within 3 of every power of two and type limit, special doubles, random; '
         'numeric strings of any length (linked and copied) converted by the same rule; copyArray 1-D / 2-D / string destinations with guard elements and exactly sized heap destinations. '
         'Oracle: x87 long double (exact for all stored kinds) and the rule of the statement. distinct = block / value / literal',
    jobs=c13_jobs,
    exhaustive=lambda tier: False,
    min_evaluations=dict(quick=200000, thorough=10000000),
    technique='exhaustive/boundary value enumeration executed under ASan+UBSan (float-cast-overflow, signed overflow, shifts) with an exact long-double oracle',
    level_text='Exploration; exhaustive over all 2^32 values of each 32-bit storage kind in the thorough tier.',
    level_note='String conversions whose value lies within 1e-6 of a range limit or of an integer are not judged (don\'t-care 9: the parse error C12 allows may flip the outcome).',
    assumptions=COMMON_ASSUME,
    extra_coverage={'conversions': lambda agg, d: agg['counters'].get('conversions', 0), 'copyarray_calls': lambda agg, d: agg['counters'].get('copyarray_calls', 0)},
)


# ---------------------------------------------------------------- C17
def c17_jobs(tier):
    jobs = [Job('units', 'c17', 'units', 0), Job('pairs', 'c17', 'pairs', 0), Job('bytes', 'c17', 'bytes', 0), Job('positions', 'c17', 'positions', 0)]
    cfg = {'ARDUINOJSON_STRING_LENGTH_SIZE': 1, 'ARDUINOJSON_SLOT_ID_SIZE': 1, 'ARDUINOJSON_DEBUG': 1, 'ARDUINOJSON_ENABLE_COMMENTS': 1}
    jobs.append(Job('positions-cfg', 'c17', 'positions', 230, defines=cfg))   # strings stay below the 255-byte limit of this build
    if tier == 'thorough':
        jobs += [Job('units-cfg', 'c17', 'units', 0, defines=cfg), Job('pairs-cfg', 'c17', 'pairs', 0, defines=cfg), Job('bytes-cfg', 'c17', 'bytes', 0, defines=cfg)]
    return jobs


PROPS['C17'] = dict(
    level='exploration',
    rule='complete enumeration used as workload: all 65536 \\\\uXXXX code units x 3 positions x upper/lower hex x value/key (surrogates alone: safety only); all 1024 x 1024 surrogate pairs '
         '(random position, hex case, value/key, single- and double-quoted); all 256 single bytes and all 65536 byte pairs as string value and as key through serializeJson -> deserializeJson, '
         'with the serialized text compared against the reference escaper (only " \\\\ \\\\b \\\\f \\\\n \\\\r \\\\t and NUL altered); 8 orders of unpaired surrogates per row (safety); 14 code points of every encoded length (once to three times in a row) after 0..699 already decoded bytes, as value and as key (every growth step of the string builder). distinct = code unit / high surrogate / first byte',
    jobs=c17_jobs,
    exhaustive=lambda tier: True,
    min_evaluations=dict(quick=66000, thorough=130000),
    technique='exhaustive enumeration of the code-unit, surrogate-pair and byte-pair spaces executed under ASan+UBSan against a 20-line reference UTF-8 encoder and escaper',
    level_text='Exploration, exhaustive over the finite spaces named in the statement (quick and thorough alike).',
    level_note='Unpaired surrogates are judged for memory safety only (don\'t-care 3).',
    assumptions=COMMON_ASSUME + ['ARDUINOJSON_DECODE_UNICODE=1'],
    extra_coverage={'escape_parses': lambda agg, d: agg['counters'].get('escape_parses', 0), 'byte_strings': lambda agg, d: agg['counters'].get('byte_strings', 0)},
)


# ---------------------------------------------------------------- C18
def c18_jobs(tier):
    jobs = [Job('pairs', 'c18', 'pairs', 0, timeout=q(tier, 900, 3600)), Job('scalars', 'c18', 'scalars', 0),
            Job('containers', 'c18', 'containers', q(tier, 300000, 20000000), timeout=q(tier, 900, 7200))]
    for i, cfg in enumerate([{'ARDUINOJSON_USE_DOUBLE': 0}, {'ARDUINOJSON_SLOT_ID_SIZE': 2, 'ARDUINOJSON_STRING_LENGTH_SIZE': 1, 'ARDUINOJSON_DEBUG': 1}]):
        jobs += [Job('pairs-cfg%d' % i, 'c18', 'pairs', 0, defines=cfg, timeout=3600), Job('scalars-cfg%d' % i, 'c18', 'scalars', 0, defines=cfg),
                 Job('containers-cfg%d' % i, 'c18', 'containers', q(tier, 60000, 4000000), defines=cfg, timeout=7200)]
    return jobs


PROPS['C18'] = dict(
    level='exploration',
    rule='value pool of about 230 values (integers at every width edge +-1 in signed and unsigned storage and both signs, floats/doubles incl. +-0, subnormals, 2^53+-1, 2^63, 2^64, +-inf, NaN; '
         'linked and copied strings incl. prefixes, NUL, bytes >= 0x80; raw values that are prefixes of one another; bin values; nested arrays, permuted objects; null; unbound): ALL ordered pairs x six operators x both operand orders, '
         'within one document, across two documents (other storage), JsonVariant vs JsonVariantConst, container handles, unbound references, std::string / const char* / JsonString operands; '
         'JsonString handles of every pair of strings, null C++ string operands (null char pointer, null JsonString), views of the own storage of the variant cut to other lengths; and every value against C++ scalars of 11 types at their edges. Judged: the six coherence laws on every pair; agreement with the values wherever the statement determines it. distinct = pair index',
    jobs=c18_jobs,
    exhaustive=lambda tier: True,
    min_evaluations=dict(quick=40000, thorough=100000),
    technique='exhaustive pair enumeration over a boundary value pool, executed under ASan+UBSan, judged by algebraic laws and an exact reference comparison (__int128-free: sign/magnitude for integers, double otherwise)',
    level_text='Exploration, exhaustive for the pool (all ordered pairs).',
    level_note='Not determined by the statement and judged by the laws only: NaN operands (don\'t-care 4), bool against number, the order (not the equality) of two strings / raws / booleans.',
    assumptions=COMMON_ASSUME,
    extra_coverage={'pair_comparisons': lambda agg, d: agg['counters'].get('pair_comparisons', 0), 'scalar_comparisons': lambda agg, d: agg['counters'].get('scalar_comparisons', 0),
                    'own_storage_views': lambda agg, d: agg['counters'].get('own_storage_views', 0), 'null_string_operands': lambda agg, d: agg['counters'].get('null_string_operands', 0),
                    'jsonstring_comparisons': lambda agg, d: agg['counters'].get('jsonstring_comparisons', 0)},
    must_observe={'views of the variant\'s own storage': lambda agg, d: agg['counters'].get('own_storage_views', 0) > 0,
                  'null string operands': lambda agg, d: agg['counters'].get('null_string_operands', 0) > 0},
)


# ---------------------------------------------------------------- C14
def c14_jobs(tier):
    return [
        Job('lockstep', 'c14', 'hist', q(tier, 8000, 400000), timeout=q(tier, 900, 10000)),
        Job('lockstep-arduino', 'c14', 'hist', q(tier, 6000, 300000), shim=True, timeout=q(tier, 900, 10000)),
        Job('sharing', 'c14', 'sharing', q(tier, 3000, 100000), timeout=q(tier, 900, 10000)),
        Job('sharing-short-lengths', 'c14', 'sharing', q(tier, 3000, 100000), defines={'ARDUINOJSON_STRING_LENGTH_SIZE': 1, 'ARDUINOJSON_SLOT_ID_SIZE': 2, 'ARDUINOJSON_POOL_CAPACITY': 16}, timeout=q(tier, 900, 10000)),
        Job('lockstep-small', 'c14', 'hist', q(tier, 4000, 200000), defines={'ARDUINOJSON_STRING_LENGTH_SIZE': 1, 'ARDUINOJSON_SLOT_ID_SIZE': 1, 'ARDUINOJSON_POOL_CAPACITY': 4, 'ARDUINOJSON_DEBUG': 1}, timeout=q(tier, 900, 10000)),
    ]


PROPS['C14'] = dict(
    level='exploration',
    rule='the histories of C04 (few keys and strings so that equal strings are shared; strings: empty, NUL inside, bytes >= 0x80, long, and a quarter number literals of every shape) replayed in lock-step '
         'on three sets of documents: A every string as const char* kept by address (exactly sized immutable heap block), B as std::string, C rotating char*, char[], string_view, JsonString copied and linked, '
         'flash string and Arduino String (shim job); copied sources are scribbled over and freed right after each call. After every step each replay must equal the model and the three replays must agree '
         'on the full observation vector (serializeJson/MsgPack, size, nesting, 14 is<T>, 12 as<T> incl. numeric conversion of strings, comparisons, operator| defaults, lookups through std::string / string_view / '
         'JsonString / const char* keys) of every document, live reference and probed target - everything except JsonString::isLinked(). distinct = distinct history',
    jobs=c14_jobs,
    min_evaluations=dict(quick=15000, thorough=800000),
    technique='differential runtime monitoring: one generated history replayed on three storage variants of the same documents under ASan+UBSan, compared by a full observation vector and against the ordered-tree model',
    level_text='Exploration (differential): observationally equivalent replays on every history generated.',
    level_note='A string with an embedded NUL cannot be handed over by a zero-terminated kind; those strings go through std::string in every replay.',
    assumptions=COMMON_ASSUME,
    extra_coverage={'observation_vectors': lambda agg, d: agg['counters'].get('observation_vectors', 0), 'key_lookups': lambda agg, d: agg['counters'].get('key_lookups', 0)},
    must_observe={'observation vectors': lambda agg, d: agg['counters'].get('observation_vectors', 0) > 0},
)


# ---------------------------------------------------------------- C19
def c19_cfg(sid, cap, ipc, sls, **extra):
    d = {'ARDUINOJSON_SLOT_ID_SIZE': sid, 'ARDUINOJSON_POOL_CAPACITY': cap, 'ARDUINOJSON_INITIAL_POOL_COUNT': ipc, 'ARDUINOJSON_STRING_LENGTH_SIZE': sls}
    d.update(extra)
    return d


C19_QUICK = [c19_cfg(4, 256, 4, 2), c19_cfg(2, 128, 4, 2), c19_cfg(1, 16, 4, 1), c19_cfg(1, 2, 1, 1, ARDUINOJSON_DEBUG=1), c19_cfg(2, 3, 2, 4),
             c19_cfg(1, 100, 4, 2),   # (more inline pools than the id space allows: 255 / 100 + 1 = 3)
             c19_cfg(2, 16, 1, 1), c19_cfg(4, 2, 2, 1, ARDUINOJSON_DEBUG=1)]
C19_MORE = [c19_cfg(1, 128, 4, 1), c19_cfg(1, 256, 4, 2), c19_cfg(1, 3, 3, 1), c19_cfg(1, 16, 2, 4), c19_cfg(2, 100, 3, 2), c19_cfg(2, 256, 1, 1), c19_cfg(2, 2, 4, 2, ARDUINOJSON_DEBUG=1),
            c19_cfg(4, 3, 1, 2), c19_cfg(4, 16, 3, 4), c19_cfg(4, 100, 2, 1), c19_cfg(4, 128, 1, 4), c19_cfg(1, 128, 3, 2), c19_cfg(1, 100, 1, 1), c19_cfg(1, 100, 3, 2), c19_cfg(2, 128, 2, 4, ARDUINOJSON_DEBUG=1)]


def c19_name(cfg):
    return 'id%d-cap%d-ipc%d-len%d%s' % (cfg['ARDUINOJSON_SLOT_ID_SIZE'], cfg['ARDUINOJSON_POOL_CAPACITY'], cfg['ARDUINOJSON_INITIAL_POOL_COUNT'], cfg['ARDUINOJSON_STRING_LENGTH_SIZE'], '-dbg' if cfg.get('ARDUINOJSON_DEBUG') else '')


def c19_jobs(tier):
    cfgs = C19_QUICK if tier == 'quick' else C19_QUICK + C19_MORE
    jobs = []
    for cfg in cfgs:
        n = c19_name(cfg)
        jobs.append(Job('digest-' + n, 'c19', 'digest', q(tier, 6000, 60000), defines=cfg, timeout=q(tier, 900, 7200), single_timeout=60))
        big = cfg['ARDUINOJSON_SLOT_ID_SIZE'] == 2   # filling 65535 slots per case
        jobs.append(Job('limit-' + n, 'c19', 'limit', q(tier, 32 if big else 240, 320 if big else 2400), defines=cfg, flavour='asan2' if big else 'asan', timeout=q(tier, 900, 7200), single_timeout=120))
    return jobs


def c19_post(jobs, records):
    """Offline checker: identical observation digests for every history that stays below the limits of two configurations."""
    by_index = {}
    jobmap = {j.name: j for j in jobs}
    for jn, recs in records.items():
        if not jn.startswith('digest-'):
            continue
        for r in recs:
            by_index.setdefault(r['index'], []).append((jn, r))
    viol, compared, pairs = [], 0, 0
    for idx, lst in sorted(by_index.items()):
        below = [(jn, r) for jn, r in lst if r.get('below')]
        if len(below) < 2:
            continue
        compared += 1
        pairs += len(below) - 1
        ref_jn, ref = below[0]
        for jn, r in below[1:]:
            if r['digest'] != ref['digest'] or r['steps'] != ref['steps']:
                j = jobmap[jn]
                viol.append(dict(j.ident(), index=idx, clause='geometry-dependent-result',
                                 detail='history %d (needs %d slots, strings of %d bytes) gives observation digest %s after %d steps under %s but %s after %d steps under %s' % (
                                     idx, r['demand'], r['maxstr'], r['digest'], r['steps'], jn, ref['digest'], ref['steps'], ref_jn),
                                 witness='replay the same index under both configurations'))
                break
    return viol, {'histories_compared_across_configurations': compared, 'configuration_pairs_compared': pairs}


PROPS['C19'] = dict(
    level='exploration',
    rule='one engine binary per configuration (slot ids of 1/2/4 bytes x pool capacities 2,3,16,100,128,256 x 1..4 inline pools x string lengths of 1/2/4 bytes: 8 builds quick, 22 thorough). '
         '(1) the same histories (C04 generator: same seed => same operations in every build; documents of up to 20..200 nodes) are replayed in every build, judged by the model at each step, and a digest of everything '
         'observable (serializeJson, serializeMsgPack, measure*, size, nesting, return values) is recorded; an offline checker demands identical digests in all builds for which the history stays below the limits '
         '(slot demand and string lengths computed from the model); a failure below the limit is a violation in itself. (2) limit workloads: arrays/objects filled with each value kind to limit-1, limit, limit+1 slots, '
         'one string shared by every slot and released one by one, strings of max-2..max+3 bytes through set(), keys, serialized(), deserializeJson and deserializeMsgPack; at the limit: refusal reported, overflowed(), '
         'accepted content intact, inspector invariants (no id >= NULL_SLOT, pools <= maxPools, no slot reachable twice), usable after removals and after clear(). distinct = history / limit scenario',
    jobs=c19_jobs,
    post=c19_post,
    min_evaluations=dict(quick=40000, thorough=1000000),
    technique='differential runtime monitoring across build configurations: identical generated histories executed in N differently configured builds under ASan+UBSan, observation digests compared offline; boundary workloads at every capacity limit',
    level_text='Exploration (differential across configurations) plus boundary workloads; builds dominate the cost.',
    level_note='The configurations exercised are those of the matrix above; "supported" is read as "accepted by the library\'s own static checks".',
    assumptions=COMMON_ASSUME,
    extra_coverage={'histories_compared_across_configurations': lambda agg, d: agg['counters'].get('histories_compared_across_configurations', 0),
                    'configuration_pairs_compared': lambda agg, d: agg['counters'].get('configuration_pairs_compared', 0),
                    'limit_fills': lambda agg, d: agg['counters'].get('limit_fills', 0)},
    must_observe={'cross-configuration comparisons': lambda agg, d: agg['counters'].get('histories_compared_across_configurations', 0) > 0,
                  'limit workloads': lambda agg, d: agg['counters'].get('limit_fills', 0) > 0},
)


# ---------------------------------------------------------------- C20
def c20_jobs(tier):
    return [
        Job('tsan', 'c20', 'threads', q(tier, 160, 8000), flavour='tsan', workers=4, timeout=q(tier, 900, 7200)),
        Job('stress-O2', 'c20', 'threads', q(tier, 1600, 80000), flavour='plain', workers=4, timeout=q(tier, 900, 7200)),
        # every process runs exactly one round, concurrent run first: lazily initialised library state is cold when the threads start
        Job('tsan-cold', 'c20', 'threads', q(tier, 24, 64), flavour='tsan', workers=q(tier, 24, 64), timeout=q(tier, 900, 7200)),
        Job('tsan-small', 'c20', 'threads', q(tier, 80, 4000), flavour='tsan', workers=4, defines={'ARDUINOJSON_SLOT_ID_SIZE': 1, 'ARDUINOJSON_POOL_CAPACITY': 8, 'ARDUINOJSON_USE_DOUBLE': 0, 'ARDUINOJSON_ENABLE_COMMENTS': 1}, timeout=q(tier, 900, 7200)),
    ]


PROPS['C20'] = dict(
    level='exploration',
    rule='rounds of T in {2,4,8,16} threads released together by a barrier; each thread runs (1) a C04 API history of 10..40 steps on its own documents (own instrumented allocator or the shared default allocator), judged by the model, '
         '(2) parse / pretty-print / MessagePack / number conversion of generated texts, (3) const-only use of ONE shared document: copy source, comparison operand, Filter(JsonVariantConst), iteration, measure; random sched_yield / spin delays '
         'BETWEEN API calls. Oracles: ThreadSanitizer reports (collected through __tsan_on_report, classified by whether a library frame is on the stack), model agreement inside each thread, and equality of each thread\'s result digest '
         'with the same workload run alone beforehand; a second, uninstrumented -O2 build repeats the rounds for higher contention; in the first round of every process (one process per round in the tsan-cold job) the threads run BEFORE the reference, on cold lazily-initialised state. Interleavings are measured from per-thread rdtsc stamps merged after join. distinct = distinct interleaving of the recorded points',
    jobs=c20_jobs,
    min_evaluations=dict(quick=1500, thorough=60000),
    technique='race detection with ThreadSanitizer (g++ -fsanitize=thread) on concurrent per-thread histories plus sequential-equivalence comparison of recorded per-thread results; no shared monitor state inside the threads',
    level_text='Exploration: TSan finds races in executed code largely independently of the schedule actually taken; the equivalence check covers the interleavings that occurred.',
    level_note='Not all interleavings can be enumerated; the library has no internal suspension points, so delays are injected between API calls only.',
    assumptions=['g++ 12 ThreadSanitizer runtime; malloc/free are intercepted and synchronised by the runtime', 'verdict is about the executions produced by this run only'],
    extra_coverage={'distinct_interleavings': lambda agg, d: d.get('interleavings', 0), 'thread_rounds': lambda agg, d: agg['counters'].get('thread_rounds', 0),
                    'threads_run': lambda agg, d: agg['counters'].get('threads_run', 0), 'thread_switch_points': lambda agg, d: agg['counters'].get('thread_switch_points', 0),
                    'tsan_rounds': lambda agg, d: agg['outcomes'].get('tsan-round', 0),
                    'cold_or_concurrent_first_rounds': lambda agg, d: agg['counters'].get('cold_or_concurrent_first_rounds', 0)},
    must_observe={'rounds with cold library state': lambda agg, d: agg['counters'].get('cold_or_concurrent_first_rounds', 0) > 0,
                  'thread switches': lambda agg, d: agg['counters'].get('thread_switch_points', 0) > 100, 'tsan rounds': lambda agg, d: agg['outcomes'].get('tsan-round', 0) > 0},
)
