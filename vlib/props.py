"""Per-property job tables. Counts are cases, never seconds."""
from .core import Job

PROPS = {}

COMMON_ASSUME = [
    'g++ 12 ASan/UBSan red zones and checks (adjacent overflows, use-after-free within quarantine, UB the sanitizer instruments)',
    'verdict is about the executions produced by this run only',
]


def q(tier, quick, thorough):
    return thorough if tier == 'thorough' else quick


# ---------------------------------------------------------------- C07
def c07_jobs(tier):
    return [
        Job('rt-default', 'c07', 'rt', q(tier, 60000, 3000000)),
        Job('rt-float', 'c07', 'rt', q(tier, 30000, 1500000), defines={'ARDUINOJSON_USE_DOUBLE': 0}),
        Job('rt-small', 'c07', 'rt', q(tier, 30000, 1500000), defines={'ARDUINOJSON_SLOT_ID_SIZE': 1, 'ARDUINOJSON_STRING_LENGTH_SIZE': 1, 'ARDUINOJSON_DEBUG': 1}),
    ]


PROPS['C07'] = dict(
    level='exploration',
    rule='random documents (gen_value: all scalar kinds at boundary values, strings over all byte values, NUL in strings and keys, '
         'chains up to depth 30) built through the API, then JSON round trip, MessagePack round trip + byte-identical re-serialization, '
         'and JSON->doc->MessagePack->doc; a case is non-trivial when the document has a non-empty container, a float, a 64-bit integer or a '
         'string needing escapes; distinct = distinct model hash',
    jobs=c07_jobs,
    min_evaluations=dict(quick=50000, thorough=1000000),
    technique='differential runtime monitoring: library serializer against library deserializer on generated documents under ASan+UBSan, judged on values extracted through the public API',
    level_text='Exploration: every generated document is pushed through the three round trips of the statement and the extracted trees are compared (floats per C12, MessagePack bytes for identity); held on the documents observed, nothing more.',
    level_note='Trusts the extraction through is<T>/as<T>/iteration (itself checked against the model by C04) and the strict reference JSON parser used only to read back the float literals.',
    assumptions=COMMON_ASSUME + ['extraction through the public read API is faithful (cross-checked by C04)',
                                 'doubles that are exactly floats are printed with float accuracy by design (DESIGN.md don\'t-care 13)'],
)
